// Package core holds the scenario-independent parts of grolsim: the single seeded PRNG,
// the concrete-history/replay format, the batch runner with process sharding, minimisation,
// known-findings matching and the evidence writer.
package core

import (
	"hash/fnv"
)

// Rng is SplitMix64. One integer (VERIF_SEED) decides everything: every run seed and every
// sub-stream is derived from it by hashing with fixed labels. No math/rand global, no clock.
type Rng struct {
	seed0 uint64
	s     uint64
}

func NewRng(seed uint64) *Rng { return &Rng{seed0: seed, s: seed} }

func (r *Rng) Uint64() uint64 {
	r.s += 0x9e3779b97f4a7c15
	z := r.s
	z = (z ^ (z >> 30)) * 0xbf58476d1ce4e5b9
	z = (z ^ (z >> 27)) * 0x94d049bb133111eb
	return z ^ (z >> 31)
}

// Intn returns a value in [0,n). n<=0 returns 0.
func (r *Rng) Intn(n int) int {
	if n <= 0 {
		return 0
	}
	return int(r.Uint64() % uint64(n))
}

func (r *Rng) Int63n(n int64) int64 {
	if n <= 0 {
		return 0
	}
	return int64(r.Uint64() % uint64(n))
}

// Range returns a value in [lo,hi].
func (r *Rng) Range(lo, hi int) int {
	if hi <= lo {
		return lo
	}
	return lo + r.Intn(hi-lo+1)
}

func (r *Rng) Float64() float64 { return float64(r.Uint64()>>11) / (1 << 53) }

func (r *Rng) Bool(p float64) bool { return r.Float64() < p }

// Sub derives an independent stream from the *initial* seed of r and a label, so adding draws to
// one stream never perturbs another.
func (r *Rng) Sub(label string) *Rng { return NewRng(Mix(r.seed0, label, 0)) }

func (r *Rng) Seed() uint64 { return r.seed0 }

// Mix hashes (seed, label, index) into a new seed.
func Mix(seed uint64, label string, i uint64) uint64 {
	h := fnv.New64a()
	var b [8]byte
	for k := 0; k < 8; k++ {
		b[k] = byte(seed >> (8 * k))
	}
	_, _ = h.Write(b[:])
	_, _ = h.Write([]byte(label))
	for k := 0; k < 8; k++ {
		b[k] = byte(i >> (8 * k))
	}
	_, _ = h.Write(b[:])
	x := NewRng(h.Sum64())
	return x.Uint64()
}

func Pick[T any](r *Rng, xs []T) T {
	return xs[r.Intn(len(xs))]
}

// Shuffle is Fisher-Yates.
func Shuffle[T any](r *Rng, xs []T) {
	for i := len(xs) - 1; i > 0; i-- {
		j := r.Intn(i + 1)
		xs[i], xs[j] = xs[j], xs[i]
	}
}

// Hash64 of a string (FNV-1a), used for shapes/states.
func Hash64(s string) uint64 {
	h := fnv.New64a()
	_, _ = h.Write([]byte(s))
	return h.Sum64()
}
