package core

import "time"

// Budget of one tier of one scenario.
type Budget struct {
	Runs    int           // histories to generate
	WallCap time.Duration // stop *starting* new runs after this (a started run always finishes)
}

// Info is the static description a scenario contributes to its evidence file.
type Info struct {
	Level       string   // exploration | fault_enumeration
	Rule        string   // how cases are generated, what makes one distinct / non-trivial
	Real        []string // components that ran real code
	Stubbed     []string // components replaced by the simulator
	Assumptions []string
	Exhaustive  bool
	Notes       string
}

// Scenario is one property's generator + fault space + oracle + signature.
type Scenario interface {
	ID() string
	Info() Info
	Budget(tier string) Budget
	// Generate builds the concrete history of run i from its own PRNG. It may execute candidate
	// inputs on scratch sessions (generator self-check). Returning nil means "discarded".
	Generate(r *Rng, run int, tier string) *History
	// Execute runs a concrete history against the real code and evaluates the oracles.
	// It must be a pure function of the history (and the code under test).
	Execute(h *History) *Outcome
}

// Shrinker is optionally implemented by scenarios that know how to simplify their histories beyond
// the generic event/statement/fault reductions.
type Shrinker interface {
	Shrinks(h *History) []*History
}

// Finaliser is optionally implemented by scenarios that need to add end-of-batch data to the
// evidence coverage map (e.g. enumerated crash points).
type Finaliser interface {
	Finalise(cov map[string]any, a *Agg)
}

// RunRecord is what a shard reports for one run.
type RunRecord struct {
	Run     int      `json:"run"`
	Outcome *Outcome `json:"outcome"`
	History *History `json:"history,omitempty"` // kept for violations (minimised) and for samples
	Events  int      `json:"events"`
	RawSig  string   `json:"raw_sig,omitempty"`
	Shrunk  int      `json:"shrink_execs,omitempty"`
}
