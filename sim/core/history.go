package core

import (
	"encoding/json"
	"os"
	"strings"
)

// Fault is an injected fault attached to one event.
type Fault struct {
	Kind string `json:"kind"`           // deadline | mark | mem | writer | crash | fsize | rodir | torn | flip
	At   int64  `json:"at,omitempty"`   // tick / marker ordinal / write number / byte offset / crash-point ordinal
	Free int64  `json:"free,omitempty"` // bytes answered by FreeMemory while the fault is active
	Mode string `json:"mode,omitempty"` // err | short | point name ...
}

// Event is one step of a concrete history. All scenarios share this type so that replay files,
// ddmin and the event log are generic; each scenario uses the fields it needs.
type Event struct {
	Ev    string   `json:"ev"`
	Tag   string   `json:"tag,omitempty"`   // role in the scenario: base | fail | probe | def | use ...
	Text  string   `json:"text,omitempty"`  // source text (when Stmts is empty)
	Stmts []string `json:"stmts,omitempty"` // statements; the submitted text is their join with "\n"
	Fault *Fault   `json:"fault,omitempty"`
	Name  string   `json:"name,omitempty"`
	Key   string   `json:"key,omitempty"`
	Val   string   `json:"val,omitempty"`
	N     int64    `json:"n,omitempty"`
	M     int64    `json:"m,omitempty"`
	Args  []string `json:"args,omitempty"`
}

// Source returns the text submitted for this event.
func (e *Event) Source() string {
	if len(e.Stmts) > 0 {
		return strings.Join(e.Stmts, "\n")
	}
	return e.Text
}

// History is a fully concrete, replayable execution plan.
type History struct {
	Prop   string            `json:"property"`
	Seed   uint64            `json:"seed"`      // VERIF_SEED of the batch
	Run    int               `json:"run"`       // run index in the batch
	RunKey uint64            `json:"run_seed"`  // derived seed of this run
	Tier   string            `json:"tier"`
	Cfg    map[string]int64  `json:"cfg,omitempty"`
	Flags  map[string]bool   `json:"flags,omitempty"`
	Strs   map[string]string `json:"strs,omitempty"`
	Events []Event           `json:"events"`
	// Filled for replay files only.
	Violation *Violation `json:"violation,omitempty"`
	Minimised bool       `json:"minimised,omitempty"`
}

func (h *History) Clone() *History {
	b, _ := json.Marshal(h)
	var c History
	_ = json.Unmarshal(b, &c)
	return &c
}

func (h *History) C(k string) int64 { return h.Cfg[k] }
func (h *History) F(k string) bool  { return h.Flags[k] }

func LoadHistory(path string) (*History, error) {
	b, err := os.ReadFile(path)
	if err != nil {
		return nil, err
	}
	var h History
	if err := json.Unmarshal(b, &h); err != nil {
		return nil, err
	}
	return &h, nil
}

// Violation describes one failed oracle.
type Violation struct {
	Oracle string `json:"oracle"`          // oracle id within the property
	Detail string `json:"detail"`          // human readable: expected vs got
	Sig    string `json:"signature"`       // narrow identity used for known-findings matching
	Event  int    `json:"event,omitempty"` // index of the event at which it was seen
}

// Stats is what one run reports besides its verdict.
type Stats struct {
	Ticks      int64          `json:"ticks"`
	Faults     map[string]int `json:"faults,omitempty"`     // fired, by kind
	Probes     map[string]int `json:"probes,omitempty"`     // "rare condition hit" counters
	Shape      string         `json:"shape"`                // sequence of (event kind, fault kind, outcome class)
	Nontrivial bool           `json:"nontrivial"`           // see scenario rule
	States     []uint64       `json:"states,omitempty"`     // hashes of canonical state dumps seen
	Discarded  bool           `json:"discarded,omitempty"`  // inconclusive (reference hit tick budget, generator reject)
	Rejects    int            `json:"rejects,omitempty"`    // generator self-check rejections
	Panics     []string       `json:"unexpected_panics,omitempty"`
	Execs      int            `json:"execs,omitempty"`      // number of session executions performed
	Children   int            `json:"children,omitempty"`   // worker processes started by this run
}

func (s *Stats) Fault(kind string) {
	if s.Faults == nil {
		s.Faults = map[string]int{}
	}
	s.Faults[kind]++
}

func (s *Stats) Probe(name string) { s.ProbeN(name, 1) }

func (s *Stats) ProbeN(name string, n int) {
	if s.Probes == nil {
		s.Probes = map[string]int{}
	}
	s.Probes[name] += n
}

func (s *Stats) State(dump string) { s.States = append(s.States, Hash64(dump)) }

func (s *Stats) Panic(msg string) {
	if len(s.Panics) < 5 {
		s.Panics = append(s.Panics, msg)
	}
}

// Outcome of executing one history.
type Outcome struct {
	Viol  *Violation `json:"viol,omitempty"`
	Stats Stats      `json:"stats"`
}
