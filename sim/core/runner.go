package core

import (
	"bufio"
	"bytes"
	"crypto/sha256"
	"encoding/hex"
	"encoding/json"
	"fmt"
	"os"
	"os/exec"
	"path/filepath"
	"runtime"
	"sort"
	"strconv"
	"strings"
	"time"
)

// Home is /verif (directory holding MANIFEST.json), from VERIF_HOME.
func Home() string {
	if h := os.Getenv("VERIF_HOME"); h != "" {
		return h
	}
	return "/verif"
}

func EnvSeed() uint64 {
	if s := os.Getenv("VERIF_SEED"); s != "" {
		if v, err := strconv.ParseInt(s, 10, 64); err == nil {
			return uint64(v)
		}
	}
	return 1
}

func Workers() int {
	if s := os.Getenv("VERIF_WORKERS"); s != "" {
		if v, err := strconv.Atoi(s); err == nil && v > 0 {
			return v
		}
	}
	n := runtime.NumCPU()
	if n > 16 {
		n = 16
	}
	if n < 1 {
		n = 1
	}
	return n
}

// Finding is one line of known_findings.txt.
type Finding struct {
	Status string // known | fixed
	Prop   string
	Sig    string // known only
	Commit string // fixed only
	What   string
}

// LoadFindings parses /verif/known_findings.txt. The file is read-only at run time.
//
//	known: property=C04 sig=<signature> :: <what fails>
//	fixed: property=C10 <commit> <what failed>
func LoadFindings() []Finding {
	b, err := os.ReadFile(filepath.Join(Home(), "known_findings.txt"))
	if err != nil {
		return nil
	}
	var out []Finding
	for _, line := range strings.Split(string(b), "\n") {
		line = strings.TrimSpace(line)
		switch {
		case strings.HasPrefix(line, "known:"):
			rest := strings.TrimSpace(strings.TrimPrefix(line, "known:"))
			f := Finding{Status: "known"}
			parts := strings.SplitN(rest, " :: ", 2)
			if len(parts) == 2 {
				f.What = parts[1]
			}
			for _, w := range strings.Fields(parts[0]) {
				if strings.HasPrefix(w, "property=") {
					f.Prop = strings.TrimPrefix(w, "property=")
				}
				if strings.HasPrefix(w, "sig=") {
					f.Sig = strings.TrimPrefix(w, "sig=")
				}
			}
			if f.Prop != "" && f.Sig != "" {
				out = append(out, f)
			}
		case strings.HasPrefix(line, "fixed:"):
			w := strings.Fields(strings.TrimPrefix(line, "fixed:"))
			if len(w) >= 2 {
				out = append(out, Finding{Status: "fixed", Prop: strings.TrimPrefix(w[0], "property="), Commit: w[1], What: strings.Join(w[2:], " ")})
			}
		}
	}
	return out
}

// Agg is what a shard (and, merged, the batch) reports: counters and sets, plus the records of
// violating runs and a few samples. Per-run records are not kept (millions of runs in thorough).
type Agg struct {
	Runs      int            `json:"runs"`
	Discarded int            `json:"discarded"`
	Events    int            `json:"events"`
	Execs     int            `json:"execs"`
	Children  int            `json:"children"`
	Rejects   int            `json:"rejects"`
	Ticks     int64          `json:"ticks"`
	Faults    map[string]int `json:"faults"`
	Probes    map[string]int `json:"probes"`
	Shapes    []uint64       `json:"shapes"` // distinct non-trivial shapes
	States    []uint64       `json:"states"`
	Panics    []string       `json:"panics"`
	MinRun    int            `json:"min_run"`
	MaxRun    int            `json:"max_run"`
	Samples   []*RunRecord   `json:"samples"`
	Viols     []*RunRecord   `json:"viols"`
	shapeSet  map[uint64]bool
	stateSet  map[uint64]bool
}

func NewAgg() *Agg {
	return &Agg{Faults: map[string]int{}, Probes: map[string]int{}, shapeSet: map[uint64]bool{}, stateSet: map[uint64]bool{}, MinRun: -1}
}

func (a *Agg) Add(r *RunRecord) {
	a.Runs++
	if a.MinRun < 0 || r.Run < a.MinRun {
		a.MinRun = r.Run
	}
	if r.Run > a.MaxRun {
		a.MaxRun = r.Run
	}
	s := &r.Outcome.Stats
	if r.Outcome.Viol != nil {
		a.Viols = append(a.Viols, r)
	}
	if s.Discarded {
		a.Discarded++
		return
	}
	if s.Nontrivial {
		a.shapeSet[Hash64(s.Shape)] = true
	}
	for _, st := range s.States {
		a.stateSet[st] = true
	}
	for k, v := range s.Faults {
		a.Faults[k] += v
	}
	for k, v := range s.Probes {
		a.Probes[k] += v
	}
	a.Ticks += s.Ticks
	a.Rejects += s.Rejects
	a.Execs += s.Execs
	a.Children += s.Children
	a.Events += r.Events
	for _, p := range s.Panics {
		if len(a.Panics) < 20 {
			a.Panics = append(a.Panics, p)
		}
	}
	if r.History != nil && r.Outcome.Viol == nil && len(a.Samples) < 3 {
		a.Samples = append(a.Samples, r)
	}
}

func (a *Agg) seal() {
	a.Shapes = a.Shapes[:0]
	for k := range a.shapeSet {
		a.Shapes = append(a.Shapes, k)
	}
	a.States = a.States[:0]
	for k := range a.stateSet {
		a.States = append(a.States, k)
	}
	sort.Slice(a.Shapes, func(i, j int) bool { return a.Shapes[i] < a.Shapes[j] })
	sort.Slice(a.States, func(i, j int) bool { return a.States[i] < a.States[j] })
}

// Merge folds another (sealed) aggregate in.
func (a *Agg) Merge(b *Agg) {
	a.Runs += b.Runs
	a.Discarded += b.Discarded
	a.Events += b.Events
	a.Execs += b.Execs
	a.Children += b.Children
	a.Rejects += b.Rejects
	a.Ticks += b.Ticks
	for k, v := range b.Faults {
		a.Faults[k] += v
	}
	for k, v := range b.Probes {
		a.Probes[k] += v
	}
	for _, k := range b.Shapes {
		a.shapeSet[k] = true
	}
	for _, k := range b.States {
		a.stateSet[k] = true
	}
	for _, p := range b.Panics {
		if len(a.Panics) < 20 {
			a.Panics = append(a.Panics, p)
		}
	}
	if b.Runs > 0 {
		if a.MinRun < 0 || b.MinRun < a.MinRun {
			a.MinRun = b.MinRun
		}
		if b.MaxRun > a.MaxRun {
			a.MaxRun = b.MaxRun
		}
	}
	a.Samples = append(a.Samples, b.Samples...)
	a.Viols = append(a.Viols, b.Viols...)
}

// RunShard executes the runs i ≡ k (mod K) of a batch and prints its aggregate as one JSON document.
func RunShard(sc Scenario, tier string, seed uint64, k, K int, deadline time.Time, w *bufio.Writer) {
	b := sc.Budget(tier)
	agg := NewAgg()
	for i := k; i < b.Runs; i += K {
		if !deadline.IsZero() && time.Now().After(deadline) {
			break
		}
		agg.Add(RunOne(sc, tier, seed, i))
	}
	agg.seal()
	_ = json.NewEncoder(w).Encode(agg)
	_ = w.Flush()
}

// RunOne generates, executes and (on violation) minimises run i.
func RunOne(sc Scenario, tier string, seed uint64, i int) *RunRecord {
	key := Mix(seed, sc.ID(), uint64(i))
	r := NewRng(key)
	h := sc.Generate(r, i, tier)
	if h == nil {
		return &RunRecord{Run: i, Outcome: &Outcome{Stats: Stats{Discarded: true, Shape: "discarded"}}}
	}
	h.Prop, h.Seed, h.Run, h.RunKey, h.Tier = sc.ID(), seed, i, key, tier
	o := sc.Execute(h)
	rec := &RunRecord{Run: i, Outcome: o, Events: len(h.Events)}
	if o.Viol != nil {
		rec.RawSig = o.Viol.Sig
		mh, mv, n := Minimise(sc, h, o.Viol.Oracle, 400)
		rec.Shrunk = n
		if mv != nil {
			o.Viol = mv
			rec.History = mh
		} else {
			rec.History = h
		}
		rec.History.Violation = o.Viol
	} else if i < 3 {
		rec.History = h
	}
	return rec
}

// RunBatch is the parent: shards the batch over worker processes, merges in run order, matches
// violations against known findings, verifies replays, writes evidence. Returns the exit code.
func RunBatch(sc Scenario, tier string) int {
	start := time.Now()
	seed := EnvSeed()
	b := sc.Budget(tier)
	K := Workers()
	if K > b.Runs {
		K = max(b.Runs, 1)
	}
	deadline := time.Time{}
	if v, err := strconv.Atoi(os.Getenv("VERIF_WALL_S")); err == nil && v > 0 {
		b.WallCap = time.Duration(v) * time.Second // developer sweeps: shorter or longer batches than the tier's default
	}
	if b.WallCap > 0 {
		deadline = start.Add(b.WallCap)
	}
	fmt.Printf("grolsim: property=%s tier=%s VERIF_SEED=%d runs=%d workers=%d\n", sc.ID(), tier, seed, b.Runs, K)
	type res struct {
		agg  *Agg
		err  error
		errb string
	}
	results := make([]res, K)
	done := make(chan int, K)
	self, _ := os.Executable()
	for k := 0; k < K; k++ {
		go func(k int) {
			cmd := exec.Command(self, "shard", sc.ID(), tier, strconv.FormatUint(seed, 10), strconv.Itoa(k), strconv.Itoa(K),
				strconv.FormatInt(deadline.UnixMilli(), 10))
			var outb, errb bytes.Buffer
			cmd.Stdout = &outb
			cmd.Stderr = &errb
			err := cmd.Run()
			agg := NewAgg()
			if err == nil {
				if e := json.Unmarshal(outb.Bytes(), agg); e != nil {
					err = fmt.Errorf("bad shard output: %v", e)
				}
			}
			results[k] = res{agg, err, errb.String()}
			done <- k
		}(k)
	}
	for i := 0; i < K; i++ {
		<-done
	}
	total := NewAgg()
	for k, r := range results {
		if r.err != nil {
			fmt.Printf("grolsim: HARNESS FAILURE in shard %d: %v\n%s\n", k, r.err, tail(r.errb, 4000))
			return 2
		}
		total.Merge(r.agg)
	}
	all := total.Viols
	sort.Slice(all, func(i, j int) bool { return all[i].Run < all[j].Run })
	sort.Slice(total.Samples, func(i, j int) bool { return total.Samples[i].Run < total.Samples[j].Run })
	if total.Runs == 0 {
		fmt.Println("grolsim: HARNESS FAILURE: no run completed")
		return 2
	}
	findings := LoadFindings()
	exit := 0
	knownSeen := map[string]int{}
	var knownOrder []string
	violations := 0
	unreproducible := 0
	reported := map[string]bool{}
	for _, rec := range all {
		v := rec.Outcome.Viol
		if v == nil {
			continue
		}
		if f := matchFinding(findings, sc.ID(), v.Sig); f != nil {
			if knownSeen[f.Sig] == 0 {
				knownOrder = append(knownOrder, f.Sig)
			}
			knownSeen[f.Sig]++
			continue
		}
		violations++
		if reported[v.Sig] {
			continue // same signature already reported (with replay) in this batch
		}
		reported[v.Sig] = true
		path, err := WriteReplay(rec.History)
		if err != nil {
			fmt.Printf("grolsim: HARNESS FAILURE: cannot write replay: %v\n", err)
			return 2
		}
		// Replay in a fresh process must reproduce the same oracle failure.
		code, out := ReplayInFreshProcess(path)
		if code != 1 || !strings.Contains(out, "oracle="+v.Oracle+" ") {
			// never report what does not replay; keep going, other violations may be solid
			fmt.Printf("grolsim: NOT REPORTED: replay of %s did not reproduce (exit %d): %s\n", path, code, oneLine(tail(out, 300), 300))
			unreproducible++
			violations--
			delete(reported, v.Sig)
			continue
		}
		fmt.Printf("violation detail: run=%d oracle=%s sig=%s\n  %s\n", rec.Run, v.Oracle, v.Sig, oneLine(v.Detail, 600))
		fmt.Printf("VIOLATION property=%s replay=%s\n", sc.ID(), path)
		exit = 1
	}
	for _, sig := range knownOrder {
		f := matchFinding(findings, sc.ID(), sig)
		fmt.Printf("KNOWN-FINDING: property=%s %s [sig=%s seen=%d]\n", sc.ID(), f.What, sig, knownSeen[sig])
	}
	if err := writeEvidence(sc, tier, seed, total, b, K, time.Since(start), violations, knownSeen); err != nil {
		fmt.Printf("grolsim: HARNESS FAILURE: evidence: %v\n", err)
		return 2
	}
	if exit == 0 && unreproducible > 0 {
		fmt.Printf("grolsim: HARNESS FAILURE: %d violation(s) did not reproduce on replay and none did\n", unreproducible)
		exit = 2
	}
	fmt.Printf("grolsim: property=%s completed_runs=%d/%d violations=%d known_findings_seen=%d wall=%.1fs\n",
		sc.ID(), total.Runs, b.Runs, violations, len(knownSeen), time.Since(start).Seconds())
	return exit
}

func matchFinding(fs []Finding, prop, sig string) *Finding {
	for i := range fs {
		if fs[i].Status == "known" && fs[i].Prop == prop && fs[i].Sig == sig {
			return &fs[i]
		}
	}
	return nil
}

func tail(s string, n int) string {
	if len(s) <= n {
		return s
	}
	return "..." + s[len(s)-n:]
}

func oneLine(s string, n int) string {
	s = strings.ReplaceAll(s, "\n", "\\n")
	if len(s) > n {
		s = s[:n] + "..."
	}
	return s
}

// WriteReplay stores a (minimised) history under /verif/replays.
func WriteReplay(h *History) (string, error) {
	b, err := json.MarshalIndent(h, "", " ")
	if err != nil {
		return "", err
	}
	sum := sha256.Sum256(b)
	dir := filepath.Join(Home(), "replays")
	if err := os.MkdirAll(dir, 0o755); err != nil {
		return "", err
	}
	p := filepath.Join(dir, fmt.Sprintf("%s-%d-%s.json", h.Prop, h.Seed, hex.EncodeToString(sum[:6])))
	return p, os.WriteFile(p, b, 0o644)
}

func ReplayInFreshProcess(path string) (int, string) {
	self, _ := os.Executable()
	cmd := exec.Command(self, "replay", path)
	out, err := cmd.CombinedOutput()
	if err == nil {
		return 0, string(out)
	}
	if ee, ok := err.(*exec.ExitError); ok {
		return ee.ExitCode(), string(out)
	}
	return 2, string(out) + err.Error()
}

// Replay executes a replay file and reports like a check: exit 1 + VIOLATION line if it reproduces.
func Replay(sc Scenario, h *History, path string) int {
	o := sc.Execute(h)
	if o.Viol == nil {
		fmt.Printf("replay: property=%s no violation on this tree (file %s)\n", sc.ID(), path)
		return 0
	}
	fmt.Printf("replay: oracle=%s sig=%s\n  %s\n", o.Viol.Oracle, o.Viol.Sig, oneLine(o.Viol.Detail, 2000))
	fmt.Printf("VIOLATION property=%s replay=%s\n", sc.ID(), path)
	return 1
}

func writeEvidence(sc Scenario, tier string, seed uint64, a *Agg, b Budget, K int, wall time.Duration,
	violations int, knownSeen map[string]int,
) error {
	info := sc.Info()
	var samples []any
	for _, r := range a.Samples {
		if len(samples) < 3 {
			samples = append(samples, sampleOf(r.History))
		}
	}
	if len(samples) == 0 {
		for _, r := range a.Viols {
			if r.History != nil {
				samples = append(samples, sampleOf(r.History))
				break
			}
		}
	}
	hours := wall.Hours()
	if hours <= 0 {
		hours = 1e-9
	}
	zeroProbes := []string{}
	for k, v := range a.Probes {
		if v == 0 {
			zeroProbes = append(zeroProbes, k)
		}
	}
	sort.Strings(zeroProbes)
	if a.Panics == nil {
		a.Panics = []string{}
	}
	cov := map[string]any{
		"evaluations":         a.Runs - a.Discarded,
		"distinct_nontrivial": len(a.shapeSet),
		"rule":                info.Rule,
		"samples":             samples,
		"exhaustive":          info.Exhaustive,
		"seeds":               map[string]any{"verif_seed": seed, "run_indices": []int{a.MinRun, a.MaxRun}, "derivation": "run_seed = mix(VERIF_SEED, property, run index)"},
		"runs_requested":      b.Runs,
		"runs_completed":      a.Runs,
		"runs_per_hour":       int64(float64(a.Runs) / hours),
		"events_executed":     a.Events,
		"session_executions":  a.Execs,
		"worker_processes":    K,
		"child_processes":     a.Children,
		"simulated_ticks":     a.Ticks,
		"simulated_seconds":   float64(a.Ticks) / 1000,
		"tick_definition":     "one tick = one Context.Err() poll by evalInternal (one evaluated AST node); 1000 ticks = 1 simulated second",
		"faults_fired":        a.Faults,
		"probes":              a.Probes,
		"probes_at_zero":      zeroProbes,
		"distinct_states":     len(a.stateSet),
		"discarded":           a.Discarded,
		"generator_rejects":   a.Rejects,
		"known_findings_seen": knownSeen,
		"components_real":     info.Real,
		"components_stubbed":  info.Stubbed,
		"unexpected_panics":   a.Panics,
		"notes":               info.Notes,
	}
	if f, ok := sc.(Finaliser); ok {
		f.Finalise(cov, a)
	}
	ev := map[string]any{
		"property_id": sc.ID(),
		"tier":        tier,
		"seed":        int64(seed),
		"level":       info.Level,
		"coverage":    cov,
		"assumptions": info.Assumptions,
		"wall_s":      wall.Seconds(),
		"violations":  violations,
	}
	bts, err := json.MarshalIndent(ev, "", " ")
	if err != nil {
		return err
	}
	dir := filepath.Join(Home(), "evidence")
	if err := os.MkdirAll(dir, 0o755); err != nil {
		return err
	}
	return os.WriteFile(filepath.Join(dir, sc.ID()+".json"), append(bts, '\n'), 0o644)
}

func sampleOf(h *History) any {
	c := h.Clone()
	if len(c.Events) > 12 {
		c.Events = c.Events[:12]
	}
	for i := range c.Events {
		if len(c.Events[i].Text) > 400 {
			c.Events[i].Text = c.Events[i].Text[:400] + "…"
		}
		for j := range c.Events[i].Stmts {
			if len(c.Events[i].Stmts[j]) > 300 {
				c.Events[i].Stmts[j] = c.Events[i].Stmts[j][:300] + "…"
			}
		}
		if len(c.Events[i].Stmts) > 10 {
			c.Events[i].Stmts = c.Events[i].Stmts[:10]
		}
	}
	return c
}

// PrintRecord dumps a run record as indented JSON (debugging, determinism self-test).
func PrintRecord(r *RunRecord) {
	b, _ := json.MarshalIndent(r, "", " ")
	fmt.Println(string(b))
}
