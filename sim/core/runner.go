package core

import (
	"bufio"
	"bytes"
	"crypto/sha256"
	"encoding/hex"
	"encoding/json"
	"fmt"
	"os"
	"os/exec"
	"path/filepath"
	"runtime"
	"sort"
	"strconv"
	"strings"
	"time"
)

// Home is /verif (directory holding MANIFEST.json), from VERIF_HOME.
func Home() string {
	if h := os.Getenv("VERIF_HOME"); h != "" {
		return h
	}
	return "/verif"
}

func EnvSeed() uint64 {
	if s := os.Getenv("VERIF_SEED"); s != "" {
		if v, err := strconv.ParseInt(s, 10, 64); err == nil {
			return uint64(v)
		}
	}
	return 1
}

func Workers() int {
	if s := os.Getenv("VERIF_WORKERS"); s != "" {
		if v, err := strconv.Atoi(s); err == nil && v > 0 {
			return v
		}
	}
	n := runtime.NumCPU()
	if n > 16 {
		n = 16
	}
	if n < 1 {
		n = 1
	}
	return n
}

// Finding is one line of known_findings.txt.
type Finding struct {
	Status string // known | fixed
	Prop   string
	Sig    string // known only
	Commit string // fixed only
	What   string
}

// LoadFindings parses /verif/known_findings.txt. The file is read-only at run time.
//
//	known: property=C04 sig=<signature> :: <what fails>
//	fixed: property=C10 <commit> <what failed>
func LoadFindings() []Finding {
	b, err := os.ReadFile(filepath.Join(Home(), "known_findings.txt"))
	if err != nil {
		return nil
	}
	var out []Finding
	for _, line := range strings.Split(string(b), "\n") {
		line = strings.TrimSpace(line)
		switch {
		case strings.HasPrefix(line, "known:"):
			rest := strings.TrimSpace(strings.TrimPrefix(line, "known:"))
			f := Finding{Status: "known"}
			parts := strings.SplitN(rest, " :: ", 2)
			if len(parts) == 2 {
				f.What = parts[1]
			}
			for _, w := range strings.Fields(parts[0]) {
				if strings.HasPrefix(w, "property=") {
					f.Prop = strings.TrimPrefix(w, "property=")
				}
				if strings.HasPrefix(w, "sig=") {
					f.Sig = strings.TrimPrefix(w, "sig=")
				}
			}
			if f.Prop != "" && f.Sig != "" {
				out = append(out, f)
			}
		case strings.HasPrefix(line, "fixed:"):
			w := strings.Fields(strings.TrimPrefix(line, "fixed:"))
			if len(w) >= 2 {
				out = append(out, Finding{Status: "fixed", Prop: strings.TrimPrefix(w[0], "property="), Commit: w[1], What: strings.Join(w[2:], " ")})
			}
		}
	}
	return out
}

// RunShard executes the runs i ≡ k (mod K) of a batch and prints one JSON RunRecord per line.
func RunShard(sc Scenario, tier string, seed uint64, k, K int, deadline time.Time, w *bufio.Writer) {
	b := sc.Budget(tier)
	enc := json.NewEncoder(w)
	for i := k; i < b.Runs; i += K {
		if !deadline.IsZero() && time.Now().After(deadline) {
			break
		}
		rec := RunOne(sc, tier, seed, i)
		_ = enc.Encode(rec)
		_ = w.Flush()
	}
}

// RunOne generates, executes and (on violation) minimises run i.
func RunOne(sc Scenario, tier string, seed uint64, i int) *RunRecord {
	key := Mix(seed, sc.ID(), uint64(i))
	r := NewRng(key)
	h := sc.Generate(r, i, tier)
	if h == nil {
		return &RunRecord{Run: i, Outcome: &Outcome{Stats: Stats{Discarded: true, Shape: "discarded"}}}
	}
	h.Prop, h.Seed, h.Run, h.RunKey, h.Tier = sc.ID(), seed, i, key, tier
	o := sc.Execute(h)
	rec := &RunRecord{Run: i, Outcome: o, Events: len(h.Events)}
	if o.Viol != nil {
		rec.RawSig = o.Viol.Sig
		mh, mv, n := Minimise(sc, h, o.Viol.Oracle, 400)
		rec.Shrunk = n
		if mv != nil {
			o.Viol = mv
			rec.History = mh
		} else {
			rec.History = h
		}
		rec.History.Violation = o.Viol
	} else if i < 3 {
		rec.History = h
	}
	return rec
}

// RunBatch is the parent: shards the batch over worker processes, merges in run order, matches
// violations against known findings, verifies replays, writes evidence. Returns the exit code.
func RunBatch(sc Scenario, tier string) int {
	start := time.Now()
	seed := EnvSeed()
	b := sc.Budget(tier)
	K := Workers()
	if K > b.Runs {
		K = max(b.Runs, 1)
	}
	deadline := time.Time{}
	if b.WallCap > 0 {
		deadline = start.Add(b.WallCap)
	}
	fmt.Printf("grolsim: property=%s tier=%s VERIF_SEED=%d runs=%d workers=%d\n", sc.ID(), tier, seed, b.Runs, K)
	type res struct {
		recs []*RunRecord
		err  error
		errb string
	}
	results := make([]res, K)
	done := make(chan int, K)
	self, _ := os.Executable()
	for k := 0; k < K; k++ {
		go func(k int) {
			cmd := exec.Command(self, "shard", sc.ID(), tier, strconv.FormatUint(seed, 10), strconv.Itoa(k), strconv.Itoa(K),
				strconv.FormatInt(deadline.UnixMilli(), 10))
			var outb, errb bytes.Buffer
			cmd.Stdout = &outb
			cmd.Stderr = &errb
			err := cmd.Run()
			var recs []*RunRecord
			sc := bufio.NewScanner(&outb)
			sc.Buffer(make([]byte, 1<<20), 1<<28)
			for sc.Scan() {
				var r RunRecord
				if e := json.Unmarshal(sc.Bytes(), &r); e != nil {
					if err == nil {
						err = fmt.Errorf("bad shard output: %v", e)
					}
					break
				}
				recs = append(recs, &r)
			}
			results[k] = res{recs, err, errb.String()}
			done <- k
		}(k)
	}
	for i := 0; i < K; i++ {
		<-done
	}
	var all []*RunRecord
	for k, r := range results {
		if r.err != nil {
			fmt.Printf("grolsim: HARNESS FAILURE in shard %d: %v\n%s\n", k, r.err, tail(r.errb, 4000))
			return 2
		}
		all = append(all, r.recs...)
	}
	sort.Slice(all, func(i, j int) bool { return all[i].Run < all[j].Run })
	if len(all) == 0 {
		fmt.Println("grolsim: HARNESS FAILURE: no run completed")
		return 2
	}
	findings := LoadFindings()
	exit := 0
	knownSeen := map[string]int{}
	var knownOrder []string
	violations := 0
	reported := map[string]bool{}
	for _, rec := range all {
		v := rec.Outcome.Viol
		if v == nil {
			continue
		}
		if f := matchFinding(findings, sc.ID(), v.Sig); f != nil {
			if knownSeen[f.Sig] == 0 {
				knownOrder = append(knownOrder, f.Sig)
			}
			knownSeen[f.Sig]++
			continue
		}
		violations++
		if reported[v.Sig] {
			continue // same signature already reported (with replay) in this batch
		}
		reported[v.Sig] = true
		path, err := WriteReplay(rec.History)
		if err != nil {
			fmt.Printf("grolsim: HARNESS FAILURE: cannot write replay: %v\n", err)
			return 2
		}
		// Replay in a fresh process must reproduce the same oracle failure.
		code, out := ReplayInFreshProcess(path)
		if code != 1 || !strings.Contains(out, "oracle="+v.Oracle+" ") {
			fmt.Printf("grolsim: HARNESS FAILURE: replay of %s did not reproduce (exit %d)\n%s\n", path, code, tail(out, 2000))
			return 2
		}
		fmt.Printf("violation detail: run=%d oracle=%s sig=%s\n  %s\n", rec.Run, v.Oracle, v.Sig, oneLine(v.Detail, 600))
		fmt.Printf("VIOLATION property=%s replay=%s\n", sc.ID(), path)
		exit = 1
	}
	for _, sig := range knownOrder {
		f := matchFinding(findings, sc.ID(), sig)
		fmt.Printf("KNOWN-FINDING: property=%s %s [sig=%s seen=%d]\n", sc.ID(), f.What, sig, knownSeen[sig])
	}
	if err := writeEvidence(sc, tier, seed, all, b, K, time.Since(start), violations, knownSeen); err != nil {
		fmt.Printf("grolsim: HARNESS FAILURE: evidence: %v\n", err)
		return 2
	}
	fmt.Printf("grolsim: property=%s completed_runs=%d/%d violations=%d known_findings_seen=%d wall=%.1fs\n",
		sc.ID(), len(all), b.Runs, violations, len(knownSeen), time.Since(start).Seconds())
	return exit
}

func matchFinding(fs []Finding, prop, sig string) *Finding {
	for i := range fs {
		if fs[i].Status == "known" && fs[i].Prop == prop && fs[i].Sig == sig {
			return &fs[i]
		}
	}
	return nil
}

func tail(s string, n int) string {
	if len(s) <= n {
		return s
	}
	return "..." + s[len(s)-n:]
}

func oneLine(s string, n int) string {
	s = strings.ReplaceAll(s, "\n", "\\n")
	if len(s) > n {
		s = s[:n] + "..."
	}
	return s
}

// WriteReplay stores a (minimised) history under /verif/replays.
func WriteReplay(h *History) (string, error) {
	b, err := json.MarshalIndent(h, "", " ")
	if err != nil {
		return "", err
	}
	sum := sha256.Sum256(b)
	dir := filepath.Join(Home(), "replays")
	if err := os.MkdirAll(dir, 0o755); err != nil {
		return "", err
	}
	p := filepath.Join(dir, fmt.Sprintf("%s-%d-%s.json", h.Prop, h.Seed, hex.EncodeToString(sum[:6])))
	return p, os.WriteFile(p, b, 0o644)
}

func ReplayInFreshProcess(path string) (int, string) {
	self, _ := os.Executable()
	cmd := exec.Command(self, "replay", path)
	out, err := cmd.CombinedOutput()
	if err == nil {
		return 0, string(out)
	}
	if ee, ok := err.(*exec.ExitError); ok {
		return ee.ExitCode(), string(out)
	}
	return 2, string(out) + err.Error()
}

// Replay executes a replay file and reports like a check: exit 1 + VIOLATION line if it reproduces.
func Replay(sc Scenario, h *History, path string) int {
	o := sc.Execute(h)
	if o.Viol == nil {
		fmt.Printf("replay: property=%s no violation on this tree (file %s)\n", sc.ID(), path)
		return 0
	}
	fmt.Printf("replay: oracle=%s sig=%s\n  %s\n", o.Viol.Oracle, o.Viol.Sig, oneLine(o.Viol.Detail, 2000))
	fmt.Printf("VIOLATION property=%s replay=%s\n", sc.ID(), path)
	return 1
}

func writeEvidence(sc Scenario, tier string, seed uint64, all []*RunRecord, b Budget, K int, wall time.Duration,
	violations int, knownSeen map[string]int,
) error {
	info := sc.Info()
	shapes := map[string]bool{}
	states := map[uint64]bool{}
	faults := map[string]int{}
	probes := map[string]int{}
	var ticks int64
	discarded, rejects, execs, children, events := 0, 0, 0, 0, 0
	var panics []string
	var samples []any
	for _, r := range all {
		s := &r.Outcome.Stats
		if s.Discarded {
			discarded++
			continue
		}
		if s.Nontrivial {
			shapes[s.Shape] = true
		}
		for _, st := range s.States {
			states[st] = true
		}
		for k, v := range s.Faults {
			faults[k] += v
		}
		for k, v := range s.Probes {
			probes[k] += v
		}
		ticks += s.Ticks
		rejects += s.Rejects
		execs += s.Execs
		children += s.Children
		events += r.Events
		for _, p := range s.Panics {
			if len(panics) < 20 {
				panics = append(panics, p)
			}
		}
		if r.History != nil && len(samples) < 3 && r.Outcome.Viol == nil {
			samples = append(samples, sampleOf(r.History))
		}
	}
	if len(samples) == 0 {
		for _, r := range all {
			if r.History != nil {
				samples = append(samples, sampleOf(r.History))
				break
			}
		}
	}
	hours := wall.Hours()
	if hours <= 0 {
		hours = 1e-9
	}
	var zeroProbes []string
	for k, v := range probes {
		if v == 0 {
			zeroProbes = append(zeroProbes, k)
		}
	}
	sort.Strings(zeroProbes)
	tps := int64(1000)
	cov := map[string]any{
		"evaluations":         len(all) - discarded,
		"distinct_nontrivial": len(shapes),
		"rule":                info.Rule,
		"samples":             samples,
		"exhaustive":          info.Exhaustive,
		"seeds":               map[string]any{"verif_seed": seed, "run_indices": []int{all[0].Run, all[len(all)-1].Run}, "derivation": "run_seed = mix(VERIF_SEED, property, run index)"},
		"runs_requested":      b.Runs,
		"runs_completed":      len(all),
		"runs_per_hour":       int64(float64(len(all)) / hours),
		"events_executed":     events,
		"session_executions":  execs,
		"worker_processes":    K,
		"child_processes":     children,
		"simulated_ticks":     ticks,
		"simulated_seconds":   float64(ticks) / float64(tps),
		"tick_definition":     "one tick = one Context.Err() poll by evalInternal (one evaluated AST node); 1000 ticks = 1 simulated second",
		"faults_fired":        faults,
		"probes":              probes,
		"probes_at_zero":      zeroProbes,
		"distinct_states":     len(states),
		"discarded":           discarded,
		"generator_rejects":   rejects,
		"known_findings_seen": knownSeen,
		"components_real":     info.Real,
		"components_stubbed":  info.Stubbed,
		"unexpected_panics":   panics,
		"notes":               info.Notes,
	}
	if f, ok := sc.(Finaliser); ok {
		f.Finalise(cov, derefRecords(all))
	}
	if n, _ := cov["distinct_nontrivial"].(int); n < 2 {
		// never pad: report what was measured; the schema will reject <2 and that is the honest outcome.
		_ = n
	}
	ev := map[string]any{
		"property_id": sc.ID(),
		"tier":        tier,
		"seed":        int64(seed),
		"level":       info.Level,
		"coverage":    cov,
		"assumptions": info.Assumptions,
		"wall_s":      wall.Seconds(),
		"violations":  violations,
	}
	bts, err := json.MarshalIndent(ev, "", " ")
	if err != nil {
		return err
	}
	dir := filepath.Join(Home(), "evidence")
	if err := os.MkdirAll(dir, 0o755); err != nil {
		return err
	}
	return os.WriteFile(filepath.Join(dir, sc.ID()+".json"), append(bts, '\n'), 0o644)
}

func derefRecords(all []*RunRecord) []RunRecord {
	out := make([]RunRecord, len(all))
	for i, r := range all {
		out[i] = *r
	}
	return out
}

func sampleOf(h *History) any {
	c := h.Clone()
	if len(c.Events) > 12 {
		c.Events = c.Events[:12]
	}
	for i := range c.Events {
		if len(c.Events[i].Text) > 400 {
			c.Events[i].Text = c.Events[i].Text[:400] + "…"
		}
		for j := range c.Events[i].Stmts {
			if len(c.Events[i].Stmts[j]) > 300 {
				c.Events[i].Stmts[j] = c.Events[i].Stmts[j][:300] + "…"
			}
		}
		if len(c.Events[i].Stmts) > 10 {
			c.Events[i].Stmts = c.Events[i].Stmts[:10]
		}
	}
	return c
}

// PrintRecord dumps a run record as indented JSON (debugging, determinism self-test).
func PrintRecord(r *RunRecord) {
	b, _ := json.MarshalIndent(r, "", " ")
	fmt.Println(string(b))
}
