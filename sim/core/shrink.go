package core

// Minimise shrinks h while Execute keeps reporting a violation of the same oracle.
// Steps: (1) ddmin over events; (2) drop faults; (3) ddmin over statements of each event;
// (4) scenario specific candidates; (5) move fault positions towards zero. Bounded by maxExec.
func Minimise(sc Scenario, h *History, oracle string, maxExec int) (*History, *Violation, int) {
	execs := 0
	var lastViol *Violation
	fails := func(c *History) bool {
		if execs >= maxExec {
			return false
		}
		execs++
		o := safeExecute(sc, c)
		if o != nil && o.Viol != nil && o.Viol.Oracle == oracle {
			lastViol = o.Viol
			return true
		}
		return false
	}
	cur := h.Clone()
	if !fails(cur) {
		return h, nil, execs // not reproducible: caller decides.
	}
	for round := 0; round < 4; round++ {
		before := size(cur)
		// (1) ddmin over events
		cur = ddminEvents(cur, fails)
		// (2) drop faults
		for i := range cur.Events {
			if cur.Events[i].Fault == nil {
				continue
			}
			c := cur.Clone()
			c.Events[i].Fault = nil
			if fails(c) {
				cur = c
			}
		}
		// (3) statements
		for i := range cur.Events {
			for len(cur.Events[i].Stmts) > 1 {
				progressed := false
				for j := len(cur.Events[i].Stmts) - 1; j >= 0; j-- {
					if len(cur.Events[i].Stmts) <= 1 {
						break
					}
					c := cur.Clone()
					c.Events[i].Stmts = append(c.Events[i].Stmts[:j:j], c.Events[i].Stmts[j+1:]...)
					if fails(c) {
						cur = c
						progressed = true
					}
				}
				if !progressed {
					break
				}
			}
		}
		// (4) scenario specific
		if sh, ok := sc.(Shrinker); ok {
			for pass := 0; pass < 3; pass++ {
				progressed := false
				for _, c := range sh.Shrinks(cur) {
					if size(c) < size(cur) && fails(c) {
						cur = c
						progressed = true
						break
					}
				}
				if !progressed {
					break
				}
			}
		}
		// (5) fault positions towards zero (bisection)
		for i := range cur.Events {
			f := cur.Events[i].Fault
			if f == nil || f.At <= 1 {
				continue
			}
			lo, hi := int64(1), f.At // invariant: hi fails
			for lo < hi {
				mid := (lo + hi) / 2
				c := cur.Clone()
				c.Events[i].Fault.At = mid
				if fails(c) {
					hi = mid
					cur = c
				} else {
					lo = mid + 1
				}
			}
		}
		if size(cur) >= before || execs >= maxExec {
			break
		}
	}
	// final verdict of the minimised history (fresh execution, not counted against the budget)
	o := safeExecute(sc, cur)
	if o != nil && o.Viol != nil && o.Viol.Oracle == oracle {
		lastViol = o.Viol
	}
	cur.Minimised = true
	return cur, lastViol, execs
}

func size(h *History) int {
	n := 0
	for _, e := range h.Events {
		n += 16 + len(e.Text)
		for _, s := range e.Stmts {
			n += 4 + len(s)
		}
		if e.Fault != nil {
			n += 8
		}
		n += len(e.Val) + len(e.Key)
	}
	return n
}

func ddminEvents(h *History, fails func(*History) bool) *History {
	cur := h
	n := 2
	for len(cur.Events) >= 2 {
		chunk := (len(cur.Events) + n - 1) / n
		reduced := false
		for start := 0; start < len(cur.Events); start += chunk {
			end := start + chunk
			if end > len(cur.Events) {
				end = len(cur.Events)
			}
			c := cur.Clone()
			c.Events = append(c.Events[:start:start], c.Events[end:]...)
			if len(c.Events) == 0 {
				continue
			}
			if fails(c) {
				cur = c
				n = max(n-1, 2)
				reduced = true
				break
			}
		}
		if !reduced {
			if n >= len(cur.Events) {
				break
			}
			n = min(n*2, len(cur.Events))
		}
	}
	return cur
}

// safeExecute converts a harness panic into "no violation" for shrinking purposes; the main
// path (runner) lets harness panics surface as exit 2.
func safeExecute(sc Scenario, h *History) (o *Outcome) {
	defer func() {
		if r := recover(); r != nil {
			o = nil
		}
	}()
	return sc.Execute(h)
}
