package world

import (
	"context"
	"fmt"
	"strings"

	"grol.io/grol/eval"
	"grol.io/grol/object"
	"grol.io/grol/repl"
	"grol.io/grol/simhook"
	"verifsim/core"
)

// SessCfg is the configuration of one incarnation (fresh eval.State).
type SessCfg struct {
	NoReg       bool
	NoCache     bool // through hook H1
	MaxDepth    int
	MaxValueLen int
	LineMode    bool  // Options.All=false (REPL line mode)
	Budget      int64 // safety tick budget per input (0: default)
	EnvSeed     uint64
	Compact     bool
}

const DefaultBudget = 400_000

// Session is a persistent eval.State built exactly as repl.EvalStringWithOption does, with inputs
// submitted through the real repl.EvalOne.
type Session struct {
	St   *eval.State
	W    *World
	Out  *RecWriter // State.Out / LogOut: what the program prints
	Echo *RecWriter // the `out` argument of EvalOne: the REPL's echo of results
	Opts repl.Options
	Cfg  SessCfg
}

func NewSession(cfg SessCfg) *Session {
	Install(nil)
	s := eval.NewState()
	s.NoReg = cfg.NoReg
	if cfg.MaxDepth > 0 {
		s.MaxDepth = cfg.MaxDepth
	}
	s.MaxValueLen = cfg.MaxValueLen
	out := &RecWriter{}
	s.Out = out
	s.LogOut = out
	s.NoLog = true
	o := repl.EvalStringOptions()
	o.NoReg = cfg.NoReg
	o.All = !cfg.LineMode
	o.Compact = cfg.Compact
	o.MaxDuration = 0 // no real timer anywhere: the deadline lives in SimContext
	w := NewWorld(cfg.EnvSeed)
	w.budget = cfg.Budget
	if w.budget == 0 {
		w.budget = DefaultBudget
	}
	return &Session{St: s, W: w, Out: out, Echo: &RecWriter{}, Opts: o, Cfg: cfg}
}

// InRes is the observable record of one input.
type InRes struct {
	Cont       bool
	Panicked   bool
	Errs       []string
	Class      string // value | lang-error | parse-error | continuation | cancelled | panic:*
	Out        string // program output (State.Out)
	Echo       string // REPL echo
	Formatted  string
	Ticks      int64
	Fired      bool
	TicksAfter int64
	BudgetHit  bool
	MemRefused bool
	WriterFaults int
	RandCalls  int
	NowCalls   int
	SleepCalls int
}

// Key is what equivalence oracles compare: output, echo, outcome class (never message text).
func (r *InRes) Key() string {
	return fmt.Sprintf("class=%s out=%q echo=%q", r.Class, r.Out, r.echoNoErr())
}

// echoNoErr: echo of values only; error wording is not part of any property.
func (r *InRes) echoNoErr() string {
	if r.Class != "value" {
		return ""
	}
	return r.Echo
}

func (s *Session) arm(f *core.Fault) {
	w := s.W
	cur = w
	simhook.NoCacheFlag = s.Cfg.NoCache
	w.inTicks, w.fireAt, w.markFireAt, w.markCount = 0, 0, 0, 0
	w.fired, w.firedErr, w.ticksAfter, w.done = false, nil, 0, nil
	w.memActive = false
	w.BudgetHit = false
	s.Out.FailAt, s.Out.Writes = 0, 0
	if f == nil {
		return
	}
	switch f.Kind {
	case "deadline":
		w.fireAt = f.At
	case "mark":
		w.markFireAt = f.At
	case "mem":
		w.memActive = true
		w.memFrom = f.At
		w.memFree = f.Free
	case "writer":
		s.Out.FailAt = int(f.At)
		s.Out.Mode = f.Mode
	}
}

// Input submits one input through the real repl.EvalOne under the given fault.
func (s *Session) Input(text string, f *core.Fault) InRes {
	s.arm(f)
	w := s.W
	r0, n0, sl0 := w.RandCalls, w.NowCalls, w.SleepCalls
	wf0 := s.Out.Faulted
	cont, panicked, errs, formatted := repl.EvalOne(context.Background(), s.St, text, s.Echo, s.Opts)
	res := InRes{
		Cont: cont, Panicked: panicked, Errs: errs, Formatted: formatted,
		Ticks: w.inTicks, Fired: w.fired, TicksAfter: w.ticksAfter, BudgetHit: w.BudgetHit,
		RandCalls: w.RandCalls - r0, NowCalls: w.NowCalls - n0, SleepCalls: w.SleepCalls - sl0,
		WriterFaults: s.Out.Faulted - wf0,
	}
	res.Out = s.Out.Take()
	res.Echo = s.Echo.Take()
	res.Class = classify(&res)
	if res.Class == "panic:guard-memory" {
		res.MemRefused = true
	}
	cur = nil
	return res
}

func classify(r *InRes) string {
	switch {
	case r.Panicked:
		msg := strings.Join(r.Errs, " ")
		switch {
		case strings.Contains(msg, "max depth"):
			return "panic:guard-depth"
		case strings.Contains(msg, "would exceed memory"):
			return "panic:guard-memory"
		case strings.Contains(msg, "runtime error"):
			return "panic:runtime"
		default:
			return "panic:internal"
		}
	case r.Cont:
		return "continuation"
	case len(r.Errs) > 0:
		if strings.HasPrefix(r.Errs[0], "<err:") {
			if r.Fired && (strings.Contains(r.Errs[0], "context deadline exceeded") || strings.Contains(r.Errs[0], "context canceled")) {
				return "cancelled"
			}
			return "lang-error"
		}
		return "parse-error"
	default:
		return "value"
	}
}

// Observe evaluates an expression on a fresh fault-free context and returns the typed canonical
// tree of the result. ok=false when the evaluation failed (the text says how).
func (s *Session) Observe(expr string) (tree string, ok bool) {
	s.arm(nil)
	defer func() {
		cur = nil
		if r := recover(); r != nil {
			s.St.Reset()
			tree, ok = fmt.Sprintf("panic:%v", r), false
		}
	}()
	cancel := s.St.SetContext(context.Background(), 0)
	defer cancel()
	obj, err := eval.EvalString(s.St, expr, false)
	if err != nil {
		return "error:" + errClass(err.Error()), false
	}
	return Canon(obj), true
}

// ObserveObj is Observe returning the object itself.
func (s *Session) ObserveObj(expr string) (o object.Object, err error) {
	s.arm(nil)
	defer func() {
		cur = nil
		if r := recover(); r != nil {
			s.St.Reset()
			o, err = nil, fmt.Errorf("panic:%v", r)
		}
	}()
	cancel := s.St.SetContext(context.Background(), 0)
	defer cancel()
	return eval.EvalString(s.St, expr, false)
}

func errClass(msg string) string {
	switch {
	case strings.Contains(msg, "identifier not found"):
		return "notfound"
	case strings.HasPrefix(msg, "parsing error"):
		return "parse"
	default:
		return "eval"
	}
}

// GlobalNames lists the names bound at top level (through the language's own `info`).
func (s *Session) GlobalNames() []string {
	o, err := s.ObserveObj("info.globals")
	if err != nil {
		return nil
	}
	var names []string
	for _, k := range object.Elements(o) {
		if str, ok := k.(object.String); ok {
			names = append(names, str.Value)
		}
	}
	return names
}

// Format runs the input through repl.EvalOne with FormatOnly (what `grol -format [-compact]` does)
// and returns the bytes written.
func (s *Session) Format(text string, compact bool) (string, []string, bool) {
	s.arm(nil)
	defer func() { cur = nil }()
	o := s.Opts
	o.FormatOnly = true
	o.Compact = compact
	o.All = true
	w := &RecWriter{}
	_, panicked, errs, _ := repl.EvalOne(context.Background(), s.St, text, w, o)
	return w.Take(), errs, panicked
}
