// Package world is the simulated environment of a grol session: virtual clock, the evaluation
// context with exact-tick cancellation, memory budget, deterministic rand/time/sleep, recording
// writers with injectable write faults, and the Session wrapper around eval.State + repl.EvalOne.
package world

import (
	"context"
	"errors"
	"io"
	"math"
	"strings"
	"time"

	"fortio.org/log"
	"grol.io/grol/eval"
	"grol.io/grol/extensions"
	"grol.io/grol/object"
	"grol.io/grol/simhook"
	"verifsim/core"
)

// TPS: ticks per simulated second (one tick = one Context.Err() poll = one evaluated node).
const TPS = 1000

// DefaultFreeMemory is what object.FreeMemory() answers inside the simulation when no memory fault is armed.
const DefaultFreeMemory = 256 << 20

// RunawayTicks: polls of an already fired context after which the simulator aborts the evaluation.
const RunawayTicks = 2_000_000

// World is the environment one session (or several compared sessions, each with its own World)
// runs in. Everything is single-goroutine; `cur` is the world the hooks talk to.
type World struct {
	Ticks int64 // total ticks of this world

	// per-input state
	inTicks    int64
	fireAt     int64 // tick of this input at which the deadline fires (0: none)
	markFireAt int64 // fire when the markCount-th sim_mark() executes (0: none)
	markCount  int64
	fired      bool
	firedErr   error
	ticksAfter int64
	done       chan struct{}
	budget     int64 // safety budget (ticks per input); hitting it marks the run inconclusive
	BudgetHit  bool

	memActive bool
	memFrom   int64
	memFree   int64
	MemRefused int

	randStream *core.Rng
	RandCalls  int
	NowCalls   int
	SleepCalls int
	SleepTicks int64
}

var cur *World

func NewWorld(envSeed uint64) *World {
	return &World{randStream: core.NewRng(envSeed)}
}

// SimContext implements context.Context on top of the world's virtual clock.
type SimContext struct {
	parent context.Context
	w      *World
}

func (c *SimContext) Deadline() (time.Time, bool) { return time.Time{}, false }
func (c *SimContext) Value(k any) any             { return c.parent.Value(k) }
func (c *SimContext) Done() <-chan struct{} {
	if c.w.done == nil {
		c.w.done = make(chan struct{})
		if c.w.fired {
			close(c.w.done)
		}
	}
	return c.w.done
}

func (w *World) fire(err error) {
	if w.fired {
		return
	}
	w.fired = true
	w.firedErr = err
	if w.done != nil {
		close(w.done)
	}
}

func (c *SimContext) Err() error {
	w := c.w
	w.Ticks++
	w.inTicks++
	if w.fired {
		w.ticksAfter++
		if w.ticksAfter > RunawayTicks {
			// The evaluator keeps polling a fired context without ever returning: a Go-level loop that
			// ignores the error. Break out so the harness can report it (EvalOne recovers panics).
			panic("simulator: evaluation kept running for more than 2,000,000 polls after the deadline fired")
		}
		return w.firedErr
	}
	if w.fireAt > 0 && w.inTicks >= w.fireAt {
		w.fire(context.DeadlineExceeded)
		return w.firedErr
	}
	if w.budget > 0 && w.inTicks >= w.budget {
		w.BudgetHit = true
		w.fire(context.DeadlineExceeded)
		return w.firedErr
	}
	return c.parent.Err()
}

var installed bool

// Install configures the process once: extensions with the given IO configuration, the harness
// marker extension, deterministic callbacks for rand/time.now/sleep (their registry entries, notably
// DontCache and ArgTypes, stay the real ones), the simhook seams and a silent logger.
func Install(cfg *extensions.Config) {
	if installed {
		return
	}
	installed = true
	log.SetOutput(io.Discard)
	log.Config.ForceColor = false
	log.SetLogLevelQuiet(log.Info)
	if cfg == nil {
		cfg = &extensions.Config{HasLoad: true, HasSave: true}
	}
	if err := extensions.Init(cfg); err != nil {
		panic(err)
	}
	must(object.CreateFunction(object.Extension{
		Name: "sim_mark", MinArgs: 0, MaxArgs: 0, Help: "harness marker",
		Callback: func(_ any, _ string, _ []object.Object) object.Object {
			w := cur
			if w != nil {
				w.markCount++
				if w.markFireAt > 0 && w.markCount >= w.markFireAt {
					w.fire(context.DeadlineExceeded)
				}
			}
			return object.NULL
		},
	}))
	m := object.ExtraFunctions()
	r := m["rand"]
	r.Callback = func(env any, _ string, args []object.Object) object.Object {
		s := env.(*eval.State)
		w := cur
		w.RandCalls++
		if len(args) == 0 {
			return object.Float{Value: w.randStream.Float64()}
		}
		n := args[0].(object.Integer).Value
		if n <= 0 {
			return s.NewError("argument to rand() if given must be > 0, >=2 for something useful")
		}
		return object.Integer{Value: w.randStream.Int63n(n)}
	}
	m["rand"] = r
	t := m["time.now"]
	t.Callback = object.ShortCallback(func(_ []object.Object) object.Object {
		w := cur
		w.NowCalls++
		// call-ordinal based (see DESIGN 5.2): epoch + k * 1/8 s, exactly representable.
		return object.Float{Value: 1.7e9 + float64(w.NowCalls)*0.125}
	})
	m["time.now"] = t
	sl := m["sleep"]
	sl.Callback = func(st any, _ string, args []object.Object) object.Object {
		s := st.(*eval.State)
		w := cur
		d := args[0].(object.Float).Value
		if d < 0 {
			return s.NewError("negative sleep duration")
		}
		w.SleepCalls++
		if w.fired {
			return s.Error(w.firedErr)
		}
		dt := d * TPS
		var ticks int64
		if dt > 1e15 || math.IsNaN(dt) {
			ticks = 1e15
		} else {
			ticks = int64(dt)
		}
		limit := int64(0)
		if w.fireAt > 0 {
			limit = w.fireAt
		}
		if w.budget > 0 && (limit == 0 || w.budget < limit) {
			limit = w.budget
		}
		if limit > 0 && w.inTicks+ticks >= limit {
			adv := limit - w.inTicks
			if adv < 0 {
				adv = 0
			}
			w.inTicks += adv
			w.Ticks += adv
			w.SleepTicks += adv
			if w.fireAt == 0 || (w.budget > 0 && w.budget < w.fireAt) {
				w.BudgetHit = true
			}
			w.fire(context.DeadlineExceeded)
			return s.Error(w.firedErr)
		}
		w.inTicks += ticks
		w.Ticks += ticks
		w.SleepTicks += ticks
		return object.NULL
	}
	m["sleep"] = sl
	simhook.ContextWrapper = func(ctx context.Context) context.Context {
		if cur == nil {
			return ctx
		}
		return &SimContext{parent: ctx, w: cur}
	}
	simhook.FreeMemoryFn = func() (int64, bool) {
		w := cur
		if w == nil {
			return 0, false
		}
		if !w.memActive || w.inTicks < w.memFrom {
			// constant virtual budget: removes the GC-timing dependence of the real reading and bounds
			// any single allocation of a simulated program (16M objects).
			return DefaultFreeMemory, true
		}
		return w.memFree, true
	}
}

func must(err error) {
	if err != nil {
		panic(err)
	}
}

// RecWriter records what is written to it; a fault plan can make write number FailAt fail.
type RecWriter struct {
	buf     strings.Builder
	Writes  int
	FailAt  int    // 1-based write number that fails (0: never)
	Mode    string // err | short
	Faulted int
}

var errInjected = errors.New("injected write error")

func (w *RecWriter) Write(p []byte) (int, error) {
	w.Writes++
	if w.FailAt > 0 && w.Writes == w.FailAt {
		w.Faulted++
		if w.Mode == "short" && len(p) > 1 {
			k := len(p) / 2
			w.buf.Write(p[:k])
			return k, io.ErrShortWrite
		}
		return 0, errInjected
	}
	return w.buf.Write(p)
}

// Take returns what was recorded since the last Take and resets the per-input fault plan.
func (w *RecWriter) Take() string {
	s := w.buf.String()
	w.buf.Reset()
	w.Writes = 0
	w.FailAt = 0
	return s
}

// ArmProcessMemory makes the free-memory seam answer a constant for the whole process (child
// workers that do not go through Session.Input).
func ArmProcessMemory(free int64) {
	w := NewWorld(0)
	w.memActive, w.memFree = true, free
	cur = w
}
