package world

import (
	"fmt"
	"math"
	"strconv"
	"strings"

	"grol.io/grol/object"
)

// Canon renders a value as a typed canonical tree: type tag by Object.Type(), payload from the
// value itself; floats by bit pattern with all NaNs identified; maps as ordered pair lists as
// delivered by first/rest iteration (the language-visible order); error wording is dropped.
func Canon(o object.Object) string {
	var b strings.Builder
	canon(&b, o, 0)
	return b.String()
}

func canon(b *strings.Builder, o object.Object, depth int) {
	if o == nil {
		b.WriteString("<go-nil>")
		return
	}
	if depth > 64 {
		b.WriteString("<deep>")
		return
	}
	o = object.Value(o)
	switch o.Type() {
	case object.INTEGER:
		b.WriteString("i:")
		b.WriteString(strconv.FormatInt(o.(object.Integer).Value, 10))
	case object.FLOAT:
		f := o.(object.Float).Value
		if math.IsNaN(f) {
			b.WriteString("f:NaN")
		} else {
			fmt.Fprintf(b, "f:%016x(%v)", math.Float64bits(f), f)
		}
	case object.BOOLEAN:
		fmt.Fprintf(b, "b:%v", o.(object.Boolean).Value)
	case object.NIL:
		b.WriteString("nil")
	case object.STRING:
		b.WriteString("s:")
		b.WriteString(strconv.Quote(o.(object.String).Value))
	case object.ARRAY:
		b.WriteString("[")
		for i, e := range object.Elements(o) {
			if i > 0 {
				b.WriteString(",")
			}
			canon(b, e, depth+1)
		}
		b.WriteString("]")
	case object.MAP:
		b.WriteString("{")
		var cur object.Object = o
		i := 0
		for object.Len(cur) > 0 && i < 100000 {
			first := object.First(cur)
			fm, ok := first.(object.Map)
			if !ok {
				b.WriteString("<bad-first>")
				break
			}
			k, _ := fm.Get(object.KeyKey)
			v, _ := fm.Get(object.ValueKey)
			if i > 0 {
				b.WriteString(",")
			}
			canon(b, k, depth+1)
			b.WriteString("=>")
			canon(b, v, depth+1)
			cur = object.Rest(cur)
			i++
		}
		b.WriteString("}")
	case object.FUNC:
		b.WriteString("fn:")
		b.WriteString(o.Inspect())
	case object.ERROR:
		b.WriteString("err")
	default:
		fmt.Fprintf(b, "T:%s:%s", o.Type(), o.Inspect())
	}
}
