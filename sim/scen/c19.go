package scen

import (
	"fmt"
	"regexp"
	"sort"
	"strconv"
	"strings"
	"time"

	"verifsim/core"
	"verifsim/gen"
	"verifsim/world"
)

// C19 — constants cannot be changed by any path (DESIGN 5.13).
type c19 struct{}

func init() { register(c19{}) }

func (c19) ID() string { return "C19" }

func (c19) Info() core.Info {
	return core.Info{
		Level: "exploration",
		Rule: "two modes. (1) dedicated histories: constants of every value type (int, float, string, bool, nil, function, arrays and maps on both sides of the 8-element / 4-pair thresholds) are bound and then attacked by " +
			"PRNG-chosen sequences of mutation attempts of every syntactic kind (C = v, C := v, C++/++C/C--/--C, C[i] = v, C.k = v, del(C.k), for C = n, for C = list, loops whose first value equals the constant's own value (for C = v:v+3, for C = [v, ...]; an integer constant bound to 0 with for C = n), the same as the ninth nested integer loop (no register left), function-local constants bound, attacked and read back inside one call, C as parameter name, assignment from nested functions and loops, C = C + [x], " +
			"attempts wrapped in catch(), mutation through an alias 'tmp = C; tmp[i] = v', through a mutating callee, and a deadline fault inside 'C[i] = slow(v)'), interleaved with explicit del(C) + re-binding; " +
			"every history runs on two real sessions (registers on / off) and after EVERY attempt the constant is re-observed: it must equal its binding value unless that input explicitly deleted it, and the outcome class must be the same in both modes. " +
			"(2) monitor mode: general generated sessions with many constants; every upper-case name ever bound is re-observed after every later input. " +
			"distinct = distinct sequence of (attempt kind, value type, size class, outcome class); non-trivial = at least one attempt was made on a container or from a nested scope.",
		Real:        commonReal,
		Stubbed:     commonStubbed,
		Assumptions: []string{"an attempt may either fail with an error or be a no-op; only the constant's value and the on/off agreement are judged", "re-binding the same value is allowed by the language and not an attempt"},
	}
}

func (c19) Budget(tier string) core.Budget {
	if tier == "thorough" {
		return core.Budget{Runs: 300000, WallCap: 20 * time.Minute}
	}
	return core.Budget{Runs: 16000, WallCap: 45 * time.Second}
}

type constSpec struct {
	name string
	v    *val
	raw  string // literal when v is nil (floats, functions)
}

func arrVal(n int, base int64) *val {
	v := &val{kind: "arr"}
	for i := 0; i < n; i++ {
		v.arr = append(v.arr, vint(base+int64(i)))
	}
	return v
}

func mapVal(n int, base int64) *val {
	v := &val{kind: "map", m: map[string]*val{}}
	for i := 0; i < n; i++ {
		v.m["k"+strconv.Itoa(i)] = vint(base + int64(i))
	}
	return v
}

func c19Consts(r *core.Rng) []constSpec {
	all := []constSpec{
		{name: "CI", v: vint(int64(r.Intn(1000)))},
		{name: "CZ", v: vint(0)},
		{name: "K9", v: vint(int64(9 + r.Intn(90)))},
		{name: "C_9A", v: &val{kind: "str", s: "nine"}},
		{name: "K10", v: vint(int64(10 + r.Intn(90)))},
		{name: "V0", v: &val{kind: "bool", i: 1}},
		{name: "CF", raw: "1.5"},
		{name: "CFI", raw: "2.0"},
		{name: "CS", v: &val{kind: "str", s: "const"}},
		{name: "CB", v: &val{kind: "bool", i: 1}},
		{name: "CFN", raw: "func(x) { x + 1 }"},
		{name: "CFC", raw: "mkc9(1)"}, // a closure: what it returns is part of its value (observed through a call)
		{name: "CA_S", v: arrVal(1+r.Intn(8), 100)},
		{name: "CA_L", v: arrVal(9+r.Intn(12), 200)},
		{name: "CM_S", v: mapVal(1+r.Intn(4), 300)},
		{name: "CM_L", v: mapVal(5+r.Intn(6), 400)},
		{name: "C_NEST", v: &val{kind: "arr", arr: []*val{arrVal(10, 500), mapVal(6, 600)}}},
	}
	core.Shuffle(r, all)
	return all[:2+r.Intn(5)]
}

func (c constSpec) literal() string {
	if c.v != nil {
		return c.v.src()
	}
	return c.raw
}

func (c constSpec) kind() string {
	if c.v != nil {
		return c.v.kind
	}
	if strings.HasPrefix(c.raw, "func") || strings.HasPrefix(c.raw, "mkc9(") {
		return "func"
	}
	return "float"
}

func (c constSpec) sizeClass() string {
	if c.v != nil {
		if c.name == "C_NEST" {
			return "large-nested"
		}
		return c.v.sizeClass()
	}
	return "scalar"
}

// attempt builds one mutation attempt of the given kind on constant c; ok=false if not applicable.
func c19Attempt(kind string, c constSpec, n int64) (string, bool) {
	C := c.name
	k := c.kind()
	other := "12345"
	switch k {
	case "str":
		other = `"changed"`
	case "bool":
		other = "false"
	case "arr":
		other = "[1, 2, 3, " + strconv.FormatInt(n, 10) + "]"
	case "map":
		other = `{"z": ` + strconv.FormatInt(n, 10) + `}`
	case "func":
		other = "func(x) { x + 2 }"
	case "float":
		other = "2.25"
	}
	isArr, isMap := k == "arr", k == "map"
	switch kind {
	case "assign":
		return C + " = " + other, true
	case "define":
		return C + " := " + other, true
	case "incr-post":
		return C + "++", k == "int" || k == "float"
	case "incr-pre":
		return "++" + C, k == "int" || k == "float"
	case "decr-post":
		return C + "--", k == "int" || k == "float"
	case "decr-pre":
		return "--" + C, k == "int" || k == "float"
	case "idx-assign":
		if isArr {
			return fmt.Sprintf("%s[%d] = %d", C, n%int64(len(c.v.arr)), 7000+n), true
		}
		if isMap {
			return fmt.Sprintf("%s[\"k0\"] = %d", C, 7000+n), true
		}
	case "dot-assign":
		return fmt.Sprintf("%s.k0 = %d", C, 7000+n), isMap
	case "new-key":
		return fmt.Sprintf("%s.zz = %d", C, 7000+n), isMap
	case "del-elem":
		return fmt.Sprintf("del(%s.k0)", C), isMap
	case "del-elem-idx":
		return fmt.Sprintf("del(%s[\"k0\"])", C), isMap
	case "loop-int":
		return fmt.Sprintf("for %s = 3 { }", C), true
	case "loop-list":
		return fmt.Sprintf("for %s = [7, 8, 9] { }", C), true
	case "loop-int-read":
		// the body reads the name: it must read the constant (or the loop must fail), in both register modes
		return fmt.Sprintf("for %s = %d { println(\"in loop:\", %s) }", C, 2+n%3, C), true
	case "loop-list-read":
		return fmt.Sprintf("for %s = [7, 8] { println(\"in loop:\", %s) }", C, C), true
	case "loop-int-self":
		// the loop's first value is the constant's own value: re-binding to an equal value is allowed, the following
		// iterations are not
		if k == "int" {
			return fmt.Sprintf("for %s = %d:%d { }", C, c.v.i, c.v.i+3), true
		}
	case "loop-int-deep":
		// nine nested integer loops: the innermost loop variable cannot get one of the 8 registers of the environment
		if k == "int" {
			return fmt.Sprintf("for la9 = 1 { for lb9 = 1 { for lc9 = 1 { for ld9 = 1 { for le9 = 1 { for lf9 = 1 { for lg9 = 1 { for lh9 = 1 { for %s = %d:%d { } } } } } } } } }", C, c.v.i, c.v.i+3), true
		}
	case "loop-list-self":
		if k == "int" {
			return fmt.Sprintf("for %s = [%d, %d, %d] { }", C, c.v.i, c.v.i+1, c.v.i+2), true
		}
	case "param":
		return fmt.Sprintf("((%s) => 1)(%s)", C, other), true
	case "param-func":
		return fmt.Sprintf("func pf9(%s) { %s }; pf9(%s)", C, C, other), true
	case "nested-assign":
		return fmt.Sprintf("(() => { %s = %s })()", C, other), true
	case "nested-define":
		return fmt.Sprintf("(() => { %s := %s; 1 })()", C, other), true
	case "nested-idx":
		if isArr {
			return fmt.Sprintf("(() => { %s[0] = %d })()", C, 7000+n), true
		}
		if isMap {
			return fmt.Sprintf("(() => { %s.k0 = %d })()", C, 7000+n), true
		}
	case "loop-assign":
		return fmt.Sprintf("for 2 { %s = %s }", C, other), true
	case "self-append":
		if isArr {
			return fmt.Sprintf("%s = %s + [%d]", C, C, 7000+n), true
		}
		if isMap {
			return fmt.Sprintf("%s = %s + {\"zz\": %d}", C, C, 7000+n), true
		}
	case "catch-assign":
		return fmt.Sprintf("catch((() => { %s = %s })())", C, other), true
	case "alias-idx":
		if isArr {
			return fmt.Sprintf("tmp9 = %s; tmp9[0] = %d", C, 7000+n), true
		}
		if isMap {
			return fmt.Sprintf("tmp9 = %s; tmp9.k0 = %d", C, 7000+n), true
		}
	case "callee-mutates":
		if isArr {
			return fmt.Sprintf("muta(%s, 0, %d)", C, 7000+n), true
		}
		if isMap {
			return fmt.Sprintf("mutm(%s, \"k0\", %d)", C, 7000+n), true
		}
	case "nested-elem":
		if C == "C_NEST" {
			return fmt.Sprintf("tmp9 = %s[0]; tmp9[1] = %d", C, 7000+n), true
		}
	case "slow-idx":
		return fmt.Sprintf("%s[0] = slow(%d)", C, 7000+n), isArr
	case "equal-other-type":
		// numerically equal value of the other numeric type: not the same value (the type changes)
		if k == "int" {
			return C + " = " + c.literal() + ".0", true
		}
		if C == "CFI" {
			return C + " = 2", true
		}
	case "equal-other-type-nested":
		// the same container with one integer element written as the numerically equal float
		if (isArr || isMap) && C != "C_NEST" {
			lit := c.literal()
			if m := regexp.MustCompile(`\b(\d+)\b([,\]}])`).FindStringSubmatchIndex(lit); m != nil {
				return C + " = " + lit[:m[3]] + ".0" + lit[m[3]:], true
			}
		}
	case "closure-same-text":
		// another closure of the same text over another captured value: not the same value
		if C == "CFC" {
			return C + " = mkc9(" + strconv.FormatInt(2+n%5, 10) + ")", true
		}
	case "same-value":
		return C + " = " + c.literal(), k != "func" && k != "float" || k == "float"
	}
	return "", false
}

var c19Kinds = []string{"assign", "define", "incr-post", "incr-pre", "decr-post", "decr-pre", "idx-assign", "dot-assign", "new-key", "del-elem", "del-elem-idx",
	"loop-int", "loop-list", "loop-int-read", "loop-list-read", "loop-int-self", "loop-int-deep", "loop-list-self", "param", "param-func", "nested-assign", "nested-define", "nested-idx", "loop-assign", "self-append", "catch-assign",
	"alias-idx", "callee-mutates", "nested-elem", "slow-idx", "same-value", "equal-other-type", "equal-other-type-nested", "closure-same-text", "closure-same-text"}

func (c19) Generate(r *core.Rng, run int, tier string) *core.History {
	h := &core.History{Cfg: map[string]int64{"maxdepth": 1000}, Flags: map[string]bool{}, Strs: map[string]string{}}
	h.Flags["nocache"] = r.Bool(.5)
	if r.Bool(.25) {
		// monitor mode: a general session with constants
		h.Flags["monitor"] = true
		flags := gen.SwarmFlags(r.Sub("flags"))
		flags.Consts = true
		flags.NoIndexAssign = false
		h.Cfg["envseed"] = int64(r.Uint64() >> 1)
		ref := sessCfgOf(h)
		ref.NoReg = true
		g := gen.New(r.Sub("gen"), flags)
		bg := newBaseGen(g, ref)
		for i, n := 0, 4+r.Intn(10); i < n; i++ {
			if r.Bool(.3) {
				if s, ok := g.ConstDef(); ok {
					bg.AddFixed([]string{s})
					continue
				}
			}
			bg.Add(1 + r.Intn(3))
		}
		for _, in := range bg.Inputs {
			h.Events = append(h.Events, core.Event{Ev: "input", Stmts: in})
		}
		h.Cfg["rejects"] = int64(bg.Rejects)
		return h
	}
	cs := c19Consts(r)
	for _, c := range cs {
		h.Events = append(h.Events, core.Event{Ev: "bind", Name: c.name, Text: c.name + " = " + c.literal(), Key: c.kind(), Val: c.sizeClass()})
	}
	n := 5 + r.Intn(25)
	for i := 0; i < n; i++ {
		c := core.Pick(r, cs)
		if r.Bool(.04) {
			// explicit deletion followed by re-binding of the same value: allowed, resets nothing else
			h.Events = append(h.Events, core.Event{Ev: "delete", Name: c.name, Text: "del(" + c.name + ")"})
			h.Events = append(h.Events, core.Event{Ev: "bind", Name: c.name, Text: c.name + " = " + c.literal(), Key: c.kind(), Val: c.sizeClass()})
			continue
		}
		if r.Bool(.06) {
			// a constant local to a function: bound, attacked and read back inside one call
			v := int64(r.Intn(4))
			attack := core.Pick(r, []string{
				fmt.Sprintf("for KL = %d:%d { }", v, v+3),
				fmt.Sprintf("for KL = %d { }", v+3),
				fmt.Sprintf("for la9 = 1 { for lb9 = 1 { for lc9 = 1 { for ld9 = 1 { for le9 = 1 { for lf9 = 1 { for lg9 = 1 { for lh9 = 1 { for KL = %d:%d { } } } } } } } } }", v, v+3),
				"KL++", "KL = KL + 1", fmt.Sprintf("for KL = [%d, %d] { }", v, v+1), "(() => { KL = 77 })()", "for 2 { KL += 1 }",
			})
			if r.Bool(.4) {
				// the constant outlives the call: closures made in the function attack it later, called from the top level
				// (the reader gets an argument no other event uses: a memoized closure of equal text made by an earlier
				// call is the recorded C04 finding, not a changed constant)
				esc := core.Pick(r, []string{
					fmt.Sprintf("pk9[1](%d)", v+50), "pk9[2]()", fmt.Sprintf("pk9[3](%d)", v), fmt.Sprintf("pk9[1](%d); pk9[2]()", v+7),
					fmt.Sprintf("(() => pk9[1](%d))()", v+9), fmt.Sprintf("for 2 { pk9[1](%d) }", v+3),
				})
				h.Events = append(h.Events, core.Event{Ev: "local", Tag: "local-escape", N: v,
					Text: fmt.Sprintf("func lk9() { KL = %d; [n => KL + n, x => { KL = x }, () => { KL++ }, x => { for KL = x:x+2 { } }] }\npk9 = lk9()\ncatch(%s)\npk9[0](%d) - %d", v, esc, (i+1)*1000, (i+1)*1000)})
				continue
			}
			h.Events = append(h.Events, core.Event{Ev: "local", Tag: "local", N: v,
				Text: fmt.Sprintf("func lk9() { KL = %d; catch((() => { %s })()); KL }\nlk9()", v, attack)})
			continue
		}
		kind := core.Pick(r, c19Kinds)
		src, ok := c19Attempt(kind, c, int64(i))
		if !ok {
			continue
		}
		ev := core.Event{Ev: "attempt", Name: c.name, Tag: kind, Text: src, Key: c.kind(), Val: c.sizeClass()}
		if kind == "slow-idx" {
			ev.Fault = &core.Fault{Kind: "deadline", At: int64(1 + r.Intn(140))}
		}
		h.Events = append(h.Events, ev)
	}
	return h
}

var constBindRe = regexp.MustCompile(`(?m)^([A-Z][A-Z0-9_]*) = `)

func (c c19) Execute(h *core.History) *core.Outcome {
	if h.F("monitor") {
		return c.execMonitor(h)
	}
	o := &core.Outcome{}
	st := &o.Stats
	cfgOn := sessCfgOf(h)
	cfgOn.NoReg = false
	cfgOff := cfgOn
	cfgOff.NoReg = true
	on, off := world.NewSession(cfgOn), world.NewSession(cfgOff)
	st.Execs = 2
	for _, p := range append([]string{"mkc9 = func(x) { () => x }"}, c06Prelude...) {
		on.Input(p, nil)
		off.Input(p, nil)
	}
	bound := map[string]string{} // name -> canonical tree at binding time
	lits := map[string]string{}
	var shape []string
	var firstKnown *core.Violation
	for i := range h.Events {
		e := &h.Events[i]
		if e.Ev == "local" && !(strings.HasPrefix(e.Text, "func lk9() { KL = "+fmt.Sprint(e.N)+";") && (strings.HasSuffix(e.Text, "KL }\nlk9()") || (e.Tag == "local-escape" && strings.Contains(e.Text, ")\npk9[0](")))) {
			continue // (after shrinking) not the recorded shape any more
		}
		if _, isBound := bound[e.Name]; e.Ev == "attempt" && !isBound {
			continue // (after shrinking) an attempt on a name that is not a bound constant is no attempt
		}
		a := on.Input(e.Text, e.Fault)
		b := off.Input(e.Text, e.Fault)
		if a.Fired || b.Fired {
			st.Fault("deadline")
		}
		shape = append(shape, e.Ev+":"+e.Tag+":"+e.Key+":"+e.Val+":"+a.Class)
		switch e.Ev {
		case "bind":
			t1, _ := on.Observe(c19Obs(e.Name))
			t2, _ := off.Observe(c19Obs(e.Name))
			if a.Class != b.Class || t1 != t2 {
				o.Viol = &core.Violation{Oracle: "register-modes-disagree", Event: i, Sig: "C19|modes|bind|" + e.Key + "|" + e.Val,
					Detail: fmt.Sprintf("binding %q: registers on -> %s %s, registers off -> %s %s", e.Text, a.Class, t1, b.Class, t2)}
			} else if a.Class != "value" {
				st.Discarded = true // the name is already bound to something else (after shrinking): no attempt possible
				st.Panic(fmt.Sprintf("bind %q: %s", e.Text, a.Class))
			}
			bound[e.Name] = t1
			lits[e.Name] = strings.TrimPrefix(e.Text, e.Name+" = ")
			if o.Viol != nil {
				break
			}
			continue
		case "delete":
			delete(bound, e.Name)
			continue
		case "local":
			// the call either fails or returns the value the local constant was bound to
			st.Nontrivial = true
			for mi, r := range []*world.InRes{&a, &b} {
				if r.Class == "value" && strings.TrimSpace(r.Echo) != fmt.Sprint(e.N) && o.Viol == nil {
					o.Viol = &core.Violation{Oracle: "constant-changed", Event: i, Sig: "C19|changed|local",
						Detail: fmt.Sprintf("%q (registers %s): the function-local constant KL bound to %d reads %s afterwards", e.Text, []string{"on", "off"}[mi], e.N, trunc(r.Echo, 100))}
				}
			}
			if o.Viol != nil {
				break
			}
			continue
		}
		if e.Val != "scalar" || strings.HasPrefix(e.Tag, "nested") || strings.HasPrefix(e.Tag, "loop") {
			st.Nontrivial = true
		}
		var viol *core.Violation
		if e.Fault == nil && (a.Class != b.Class || a.Out != b.Out) {
			viol = &core.Violation{Oracle: "register-modes-disagree", Event: i, Sig: fmt.Sprintf("C19|modes|%s|%s|%s", e.Tag, e.Key, e.Val),
				Detail: fmt.Sprintf("attempt %q: registers on -> %s %v out=%q, registers off -> %s %v out=%q", e.Text, a.Class, truncAll(a.Errs), trunc(a.Out, 100), b.Class, truncAll(b.Errs), trunc(b.Out, 100))}
		}
		if strings.HasSuffix(e.Tag, "-read") && viol == nil {
			// whatever the loop printed for the name must be the constant's printed value
			ref := on.Input("println(\"in loop:\", "+e.Name+")", nil)
			off.Input("println(\"in loop:\", "+e.Name+")", nil)
			want := strings.TrimSpace(ref.Out)
			for _, line := range strings.Split(strings.TrimSpace(a.Out), "\n") {
				if line != "" && line != want {
					viol = &core.Violation{Oracle: "constant-changed", Event: i, Sig: fmt.Sprintf("C19|changed|%s|%s|%s", e.Tag, e.Key, e.Val),
						Detail: fmt.Sprintf("attempt %q: inside the loop the name reads %q, the constant prints as %q", e.Text, line, want)}
					break
				}
			}
		}
		for _, name := range sortedKeys(bound) {
			want := bound[name]
			for mi, s := range []*world.Session{on, off} {
				mode := []string{"on", "off"}[mi]
				got, _ := s.Observe(c19Obs(name))
				if got != want && viol == nil {
					viol = &core.Violation{Oracle: "constant-changed", Event: i, Sig: fmt.Sprintf("C19|changed|%s|%s|%s", e.Tag, e.Key, e.Val),
						Detail: fmt.Sprintf("after attempt #%d %q (registers %s, outcome %s): %s reads %s, was bound to %s", i, e.Text, mode, a.Class, name, trunc(got, 300), trunc(want, 300))}
				}
			}
		}
		if viol != nil {
			if knownSig("C19", viol.Sig) {
				st.Probe("known_constant_mutation_seen")
				if firstKnown == nil {
					firstKnown = viol
				}
				// re-synchronise both sessions: delete and re-bind every constant from its literal
				for _, name := range sortedKeys(bound) {
					for _, s := range []*world.Session{on, off} {
						s.Input("del("+name+")", nil)
						s.Input(name+" = "+lits[name], nil)
					}
				}
				continue
			}
			o.Viol = viol
			break
		}
	}
	if o.Viol == nil && firstKnown != nil {
		o.Viol = firstKnown
	}
	if st.Discarded {
		o.Viol = nil
	}
	st.Ticks = on.W.Ticks + off.W.Ticks
	st.Shape = shapeOf(shape)
	return o
}

// execMonitor: every upper-case name ever bound at top level is re-observed after every later input.
func (c19) execMonitor(h *core.History) *core.Outcome {
	o := &core.Outcome{}
	st := &o.Stats
	st.Rejects = int(h.C("rejects"))
	cfgOn := sessCfgOf(h)
	cfgOn.NoReg = false
	cfgOff := cfgOn
	cfgOff.NoReg = true
	sessions := []*world.Session{world.NewSession(cfgOn), world.NewSession(cfgOff)}
	st.Execs = 2
	bound := []map[string]string{{}, {}}
	var shape []string
	var firstKnown *core.Violation
	for i := range h.Events {
		src := h.Events[i].Source()
		for si, s := range sessions {
			r := s.Input(src, nil)
			if si == 0 {
				shape = append(shape, "monitor:"+r.Class)
			}
			for _, name := range sortedKeys(bound[si]) {
				want := bound[si][name]
				if strings.Contains(src, "del("+name) {
					delete(bound[si], name)
					continue
				}
				got, _ := s.Observe(name)
				if got != want {
					v := &core.Violation{Oracle: "constant-changed", Event: i, Sig: "C19|monitor|" + canonSizeClass(want),
						Detail: fmt.Sprintf("after input #%d %q (NoReg=%v): constant %s reads %s, was %s", i, trunc(src, 200), s.Cfg.NoReg, name, trunc(got, 200), trunc(want, 200))}
					if knownSig("C19", v.Sig) {
						st.Probe("known_constant_mutation_seen")
						if firstKnown == nil {
							firstKnown = v
						}
						bound[si][name] = got // keep monitoring from the new value
					} else if o.Viol == nil {
						o.Viol = v
					}
				}
			}
			for _, mm := range constBindRe.FindAllStringSubmatch(src, -1) {
				name := mm[1]
				if _, ok := bound[si][name]; !ok {
					if t, ok := s.Observe(name); ok {
						bound[si][name] = t
						st.Nontrivial = true
					}
				}
			}
		}
		if o.Viol != nil {
			break
		}
	}
	if o.Viol == nil {
		o.Viol = firstKnown
	}
	st.Ticks = sessions[0].W.Ticks + sessions[1].W.Ticks
	st.Shape = shapeOf(shape)
	return o
}

// canonSizeClass classifies a canonical tree: scalar, small-container or large-container
// (more than 8 array elements / 4 map pairs at top level).
func canonSizeClass(c string) string {
	if len(c) == 0 || (c[0] != '[' && c[0] != '{') {
		return "scalar"
	}
	depth, items := 0, 0
	inStr := false
	for i := 0; i < len(c); i++ {
		ch := c[i]
		if inStr {
			if ch == '\\' {
				i++
			} else if ch == '"' {
				inStr = false
			}
			continue
		}
		switch ch {
		case '"':
			inStr = true
		case '[', '{', '(':
			depth++
		case ']', '}', ')':
			depth--
		case ',':
			if depth == 1 {
				items++
			}
		}
	}
	if len(c) > 2 {
		items++
	}
	limit := 8
	if c[0] == '{' {
		limit = 4
	}
	if items > limit {
		return "large-container"
	}
	return "small-container"
}

func sortedKeys(m map[string]string) []string {
	ks := make([]string, 0, len(m))
	for k := range m {
		ks = append(ks, k)
	}
	sort.Strings(ks)
	return ks
}

// c19Obs is the expression observing a constant: the name itself, or a call for the closure constant (two closures
// of equal text differ only in what they return).
func c19Obs(name string) string {
	if name == "CFC" {
		return "CFC()"
	}
	return name
}
