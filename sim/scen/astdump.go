package scen

import (
	"fmt"
	"strings"

	"grol.io/grol/ast"
	"grol.io/grol/object"
)

// dumpAST is the harness' own canonical structural dump of a syntax tree (independent of the
// printer under test): node kind, token type and literal, children in order.
func dumpAST(n ast.Node) string {
	var b strings.Builder
	dumpNode(&b, n, true)
	return b.String()
}

// dumpASTNoComments drops comment nodes (compact mode omits them by design).
func dumpASTNoComments(n ast.Node) string {
	var b strings.Builder
	dumpNode(&b, n, false)
	return b.String()
}

func tok(n ast.Node) string {
	t := n.Value()
	if t == nil {
		return "<nil-token>"
	}
	return fmt.Sprintf("%s:%q", t.Type(), t.Literal())
}

func dumpList(b *strings.Builder, ns []ast.Node, c bool) {
	b.WriteString("[")
	first := true
	for _, x := range ns {
		if _, isC := x.(*ast.Comment); isC && !c {
			continue
		}
		if !first {
			b.WriteString(" ")
		}
		first = false
		dumpNode(b, x, c)
	}
	b.WriteString("]")
}

func dumpNode(b *strings.Builder, n ast.Node, c bool) {
	if n == nil {
		b.WriteString("<nil>")
		return
	}
	switch v := n.(type) {
	case *ast.Statements:
		if v == nil {
			b.WriteString("<nil-stmts>")
			return
		}
		b.WriteString("(stmts ")
		dumpList(b, v.Statements, c)
		b.WriteString(")")
	case *ast.Identifier:
		b.WriteString("(id " + tok(v) + ")")
	case *ast.IntegerLiteral:
		fmt.Fprintf(b, "(int %d)", v.Val)
	case *ast.FloatLiteral:
		fmt.Fprintf(b, "(float %v)", v.Val)
	case *ast.StringLiteral:
		fmt.Fprintf(b, "(str %q)", v.Literal())
	case *ast.Boolean:
		fmt.Fprintf(b, "(bool %v)", v.Val)
	case *ast.Comment:
		fmt.Fprintf(b, "(comment %q)", v.Literal())
	case *ast.ControlExpression:
		b.WriteString("(ctl " + tok(v) + ")")
	case *ast.ReturnStatement:
		b.WriteString("(return ")
		if v.ReturnValue != nil {
			dumpNode(b, v.ReturnValue, c)
		}
		b.WriteString(")")
	case *ast.PrefixExpression:
		b.WriteString("(prefix " + tok(v) + " ")
		dumpNode(b, v.Right, c)
		b.WriteString(")")
	case *ast.PostfixExpression:
		fmt.Fprintf(b, "(postfix %s %q)", tok(v), v.Prev.Literal())
	case *ast.InfixExpression:
		b.WriteString("(infix " + tok(v) + " ")
		dumpNode(b, v.Left, c)
		b.WriteString(" ")
		if v.Right == nil {
			b.WriteString("<none>")
		} else {
			dumpNode(b, v.Right, c)
		}
		b.WriteString(")")
	case *ast.IfExpression:
		b.WriteString("(if ")
		dumpNode(b, v.Condition, c)
		b.WriteString(" ")
		dumpNode(b, v.Consequence, c)
		if v.Alternative != nil {
			b.WriteString(" else ")
			dumpNode(b, v.Alternative, c)
		}
		b.WriteString(")")
	case *ast.ForExpression:
		b.WriteString("(for ")
		dumpNode(b, v.Condition, c)
		b.WriteString(" ")
		dumpNode(b, v.Body, c)
		b.WriteString(")")
	case *ast.Builtin:
		b.WriteString("(builtin " + tok(v) + " ")
		dumpList(b, v.Parameters, c)
		b.WriteString(")")
	case *ast.FunctionLiteral:
		name := ""
		if v.Name != nil {
			name = v.Name.Literal()
		}
		fmt.Fprintf(b, "(func %q variadic=%v ", name, v.Variadic)
		dumpList(b, v.Parameters, c)
		b.WriteString(" ")
		dumpNode(b, v.Body, c)
		b.WriteString(")")
	case *ast.CallExpression:
		b.WriteString("(call ")
		dumpNode(b, v.Function, c)
		b.WriteString(" ")
		dumpList(b, v.Arguments, c)
		b.WriteString(")")
	case *ast.ArrayLiteral:
		b.WriteString("(array ")
		dumpList(b, v.Elements, c)
		b.WriteString(")")
	case *ast.IndexExpression:
		b.WriteString("(index " + tok(v) + " ")
		dumpNode(b, v.Left, c)
		b.WriteString(" ")
		dumpNode(b, v.Index, c)
		b.WriteString(")")
	case *ast.MapLiteral:
		b.WriteString("(map")
		for _, k := range v.Order {
			b.WriteString(" ")
			dumpNode(b, k, c)
			b.WriteString("=>")
			dumpNode(b, v.Pairs[k], c)
		}
		b.WriteString(")")
	case *ast.MacroLiteral:
		b.WriteString("(macro ")
		dumpList(b, v.Parameters, c)
		b.WriteString(" ")
		dumpNode(b, v.Body, c)
		b.WriteString(")")
	case *object.Register:
		b.WriteString("(register " + tok(v) + ")")
	default:
		// value (non-pointer) nodes produced by macro expansion
		switch v := n.(type) {
		case ast.IntegerLiteral:
			fmt.Fprintf(b, "(int %d)", v.Val)
		case ast.Boolean:
			fmt.Fprintf(b, "(bool %v)", v.Val)
		default:
			fmt.Fprintf(b, "(?%T %s)", n, tok(n))
		}
	}
}
