package scen

import "fmt"

// workers are child-process entry points ("grolsim worker <name> args...").
var workers = map[string]func(args []string) int{}

func Worker(args []string) int {
	if len(args) == 0 {
		return 2
	}
	f := workers[args[0]]
	if f == nil {
		fmt.Printf("unknown worker %s\n", args[0])
		return 2
	}
	return f(args[1:])
}
