package scen

import (
	"bytes"
	"crypto/sha256"
	"encoding/hex"
	"encoding/json"
	"fmt"
	"io/fs"
	"os"
	"os/exec"
	"path/filepath"
	"regexp"
	"sort"
	"strconv"
	"strings"
	"time"

	"grol.io/grol/extensions"
	"verifsim/core"
	"verifsim/world"
)

// C17 — restricted IO confines file access (DESIGN 5.11): a monitored file-system invariant.
type c17 struct{}

func init() {
	register(c17{})
	workers["c17"] = c17Worker
}

func (c17) ID() string { return "C17" }

func (c17) Info() core.Info {
	return core.Info{
		Level: "exploration",
		Rule: "one worker process per IO configuration (restricted, empty-only, load/save disabled; plus unrestricted as a positive control of the monitor, with harmless names only) because the configuration is frozen at the first extensions.Init. " +
			"Each history interleaves save(name), load(name), image.new/image.save, exec/run attempts and ordinary inputs, with names from a seeded generator biased to hostile shapes over the property's alphabet (letters, digits, _, ., /, \\, NUL, space, ~, a lone non-ASCII byte and valid multi-byte UTF-8 letters whose code point's low byte is an ASCII letter, digit or underscore; with/without .gr; .., embedded .gr, empty, absolute paths), inside a scratch tree holding decoy files with unique marker bindings (../outside.gr, a sibling directory, sub/x.gr, secret, x.gr.bak). " +
			"Environment fault: the file an accepted name maps to (or ./grol.png) is pre-created as a directory so that the request fails after acceptance; a failing request may then return an error but must still create nothing outside the allowed set. After EVERY event the whole tree (incl. parent and sibling) is snapshotted (path, size, sha256, mode): created/modified files must be within {./<letters digits _>.gr (only ./.gr in empty-only mode), ./grol.png}; every decoy stays byte-identical; a name the property's predicate rejects must return an error and leave the snapshot unchanged; no marker of a file outside the allowed set ever appears in globals; exec/run must be unknown identifiers; the accept/reject decision of a name is the same at every position. " +
			"distinct = distinct (configuration, sequence of (operation, name class, decision)); non-trivial = at least one hostile name (path separator, parent reference, NUL, embedded suffix) was submitted after at least one accepted save.",
		Real:        []string{"extensions.Init configuration, sanitizeFileName, saveFunc/loadFunc, createShellFunctions registration, image.save", "repl.EvalOne, evaluator", "the kernel's file system under a scratch directory"},
		Stubbed:     []string{"nothing replaced; exec/run are only *attempted* in configurations where they must not exist"},
		Assumptions: []string{"not exhaustive to length 6 (that would be bounded enumeration = model checking); seeded sampling biased to hostile shapes", "file reads are detected through unique marker bindings, not by tracing system calls"},
	}
}

func (c17) Budget(tier string) core.Budget {
	if tier == "thorough" {
		return core.Budget{Runs: 40000, WallCap: 20 * time.Minute}
	}
	return core.Budget{Runs: 2000, WallCap: 45 * time.Second}
}

var c17Configs = []string{"restricted", "emptyonly", "disabled", "unrestricted"}

var hostileAtoms = []string{"a", "b", "Z", "0", "9", "_", ".", "..", "/", "\\", "\x00", " ", "~", "\xc3", "š", "Ł", "ş", "а", "ａ", "é", "日", ".gr", "gr", "x.gr", "../", "./", "sub/", "existing", "secret", "outside", "sibling/", "/tmp/", ".."}

func hostileName(r *core.Rng) string {
	switch r.Intn(10) {
	case 0:
		return ""
	case 1:
		return core.Pick(r, []string{"existing", "existing.gr", "newfile", "new_file_2.gr", "A9_", ".gr", "x", "outside", "decoy", "decoy.gr"})
	case 2:
		return core.Pick(r, []string{"../outside", "../outside.gr", "../sibling/decoy.gr", "sub/x", "sub/x.gr", "./existing.gr", "secret", "x.gr.bak", "x.gr.gr", "/etc/passwd", "~/x.gr", "..", "../.gr", "a/../b.gr", "existing.gr\x00.txt", "existing\x00", " existing", "existing ", "a.b.gr", ".gr.gr", "gr", "..gr",
			"š", "š.gr", "aŁ_1", "ş", "а1.gr", "ａ", "é_é", "日本.gr", "dir1", "dir1.gr"})
	}
	n := 1 + r.Intn(5)
	var b strings.Builder
	for i := 0; i < n; i++ {
		b.WriteString(core.Pick(r, hostileAtoms))
	}
	if r.Bool(.4) {
		b.WriteString(".gr")
	}
	return b.String()
}

func (c17) Generate(r *core.Rng, run int, tier string) *core.History {
	h := &core.History{Cfg: map[string]int64{"maxdepth": 1000}, Flags: map[string]bool{}, Strs: map[string]string{}}
	cfg := c17Configs[run%len(c17Configs)]
	h.Strs["config"] = cfg
	// the session evaluates "a script run by path" in part of the runs (State.CurrentFile as main.go sets it in file mode,
	// pointing into the parent or a sibling directory, where decoys with acceptable names live): where the script
	// comes from must not widen what restricted load/save reach
	h.Strs["script"] = core.Pick(r, []string{"", "", "<stdin>", "../script.gr", "../sibling/main.gr", "sub/tool.gr"})
	n := 6 + r.Intn(20)
	var used []string
	for i := 0; i < n; i++ {
		name := hostileName(r)
		if cfg == "unrestricted" {
			// positive control only: names that stay inside the scratch tree
			name = core.Pick(r, []string{"plain", "plain.gr", "../escape_probe.gr", "sub/inner.gr", ""})
		}
		if len(used) > 0 && r.Bool(.25) {
			name = core.Pick(r, used) // the same name again, at another position
		}
		used = append(used, name)
		qn := strconv.Quote(name) // quoted: NUL and non-UTF-8 bytes must survive the JSON history file
		if cfg != "unrestricted" && r.Bool(.06) {
			// environment fault: the file an accepted name maps to already exists as a DIRECTORY, so the request
			// fails after the name was accepted; a failing request must still create nothing outside the allowed set
			ob := core.Pick(r, []string{"dir1.gr", ".gr", "grol.png", "A9_.gr", "x.gr"})
			h.Events = append(h.Events, core.Event{Ev: "obstacle", Name: strconv.Quote(ob)})
			used = append(used, strings.TrimSuffix(ob, ".gr"))
		}
		switch k := r.Intn(12); {
		case k < 5:
			h.Events = append(h.Events, core.Event{Ev: "save", Name: qn})
		case k < 9:
			h.Events = append(h.Events, core.Event{Ev: "load", Name: qn})
		case k < 10:
			h.Events = append(h.Events, core.Event{Ev: "image", Name: qn})
		case k < 11:
			h.Events = append(h.Events, core.Event{Ev: "exec", Text: core.Pick(r, []string{`exec("touch", "pwned_by_exec")`, `run("touch", "pwned_by_run")`, `exec("sh", "-c", "echo x > ../pwned")`})})
		default:
			h.Events = append(h.Events, core.Event{Ev: "input", Text: fmt.Sprintf("user_%d = %d", i, r.Intn(1000))})
		}
	}
	if r.Bool(.5) {
		h.Events = append(h.Events, core.Event{Ev: "save-noarg"}, core.Event{Ev: "load-noarg"})
	}
	return h
}

type snapEntry struct {
	Size int64
	Sum  string
	Mode fs.FileMode
}

func snapshot(root string) map[string]snapEntry {
	out := map[string]snapEntry{}
	_ = filepath.WalkDir(root, func(p string, d fs.DirEntry, err error) error {
		if err != nil {
			return nil
		}
		rel, _ := filepath.Rel(root, p)
		info, e := d.Info()
		if e != nil {
			return nil
		}
		if d.IsDir() {
			out[rel+"/"] = snapEntry{Mode: info.Mode()}
			return nil
		}
		b, _ := os.ReadFile(p)
		sum := sha256.Sum256(b)
		out[rel] = snapEntry{Size: info.Size(), Sum: hex.EncodeToString(sum[:8]), Mode: info.Mode()}
		return nil
	})
	return out
}

func snapDiff(a, b map[string]snapEntry) (changed []string) {
	for k, v := range b {
		if old, ok := a[k]; !ok || old != v {
			changed = append(changed, k)
		}
	}
	for k := range a {
		if _, ok := b[k]; !ok {
			changed = append(changed, k+" (deleted)")
		}
	}
	sort.Strings(changed)
	return changed
}

var plainName = regexp.MustCompile(`^[A-Za-z0-9_]*(\.gr)?$`)

// grolString renders a Go string as a grol string literal denoting exactly those bytes.
func grolString(s string) string { return quoteGrol(s) }

type c17Result struct {
	Viol      *core.Violation `json:"viol"`
	Shape     []string        `json:"shape"`
	Escape    int             `json:"escapes_seen_in_control"`
	Hostile   int             `json:"hostile"`
	Accepted  int             `json:"accepted"`
	Rejected  int             `json:"rejected"`
	Ticks     int64           `json:"ticks"`
	Obstacles int             `json:"obstacles"`
	Blocked   int             `json:"blocked"`
}

var c17Decoys = map[string]string{
	"outside.gr":       "marker_outside = 111\n",
	"sibling/decoy.gr": "marker_sibling = 222\n",
	"work/sub/x.gr":    "marker_sub = 333\n",
	"work/secret":      "marker_secret = 444\n",
	"work/x.gr.bak":    "marker_bak = 555\n",
	"work/existing.gr": "marker_existing = 666\n",
	"sentinel_parent":  "do not touch\n",
}

var forbiddenMarkers = []string{"marker_outside", "marker_sibling", "marker_sub", "marker_secret", "marker_bak"}

// c17Worker: worker c17 <root> <historyfile>; prints a c17Result.
func c17Worker(args []string) int {
	root, hf := args[0], args[1]
	h, err := core.LoadHistory(hf)
	if err != nil {
		return 2
	}
	config := h.Strs["config"]
	ec := &extensions.Config{HasLoad: true, HasSave: true}
	switch config {
	case "emptyonly":
		ec.LoadSaveEmptyOnly = true
	case "disabled":
		ec.HasLoad, ec.HasSave = false, false
	case "unrestricted":
		ec.UnrestrictedIOs = true
	}
	for rel, content := range c17Decoys {
		p := filepath.Join(root, rel)
		_ = os.MkdirAll(filepath.Dir(p), 0o755)
		_ = os.WriteFile(p, []byte(content), 0o644)
	}
	work := filepath.Join(root, "work")
	if err := os.Chdir(work); err != nil {
		return 2
	}
	world.Install(ec)
	s := world.NewSession(world.SessCfg{MaxDepth: 1000})
	s.St.CurrentFile = h.Strs["script"]
	res := &c17Result{}
	decisions := map[string]string{}
	obstacles := map[string]bool{}
	fail := func(i int, oracle, detail string) {
		if res.Viol == nil {
			res.Viol = &core.Violation{Oracle: oracle, Event: i, Sig: "C17|" + config + "|" + oracle, Detail: detail}
		}
	}
	prev := snapshot(root)
	savedOnce := false
	for i := range h.Events {
		e := &h.Events[i]
		if uq, err := strconv.Unquote(e.Name); err == nil {
			e.Name = uq
		}
		var src string
		if e.Ev == "obstacle" {
			if os.Mkdir(filepath.Join(work, e.Name), 0o755) == nil {
				obstacles["work/"+e.Name] = true
				res.Obstacles++
			}
			prev = snapshot(root)
			continue
		}
		switch e.Ev {
		case "save":
			src = "save(" + grolString(e.Name) + ")"
		case "load":
			src = "load(" + grolString(e.Name) + ")"
		case "save-noarg":
			src = "save()"
		case "load-noarg":
			src = "load()"
		case "image":
			src = "image.new(" + grolString(e.Name) + ", 2, 2)\nimage.save(" + grolString(e.Name) + ")"
		default:
			src = e.Text
		}
		r := s.Input(src, nil)
		now := snapshot(root)
		changed := snapDiff(prev, now)
		isErr := r.Class != "value"
		// decoys untouched
		for _, rel := range sortedKeys(c17Decoys) {
			content := c17Decoys[rel]
			if rel == "work/existing.gr" {
				continue
			}
			b, err := os.ReadFile(filepath.Join(root, rel))
			if err != nil || string(b) != content {
				if config != "unrestricted" {
					fail(i, "decoy-untouched", fmt.Sprintf("after %q the decoy %s changed or disappeared", src, rel))
				}
			}
		}
		name := e.Name
		noarg := e.Ev == "save-noarg" || e.Ev == "load-noarg"
		if noarg {
			name = ""
		}
		hostile := strings.ContainsAny(name, "/\\\x00~ šŁşаａé日") || strings.Contains(name, "..") || strings.Count(name, ".") > 1
		if hostile {
			res.Hostile++
		}
		var allowed map[string]bool
		accepted := false
		switch config {
		case "restricted":
			accepted = plainName.MatchString(name)
			allowed = map[string]bool{"work/" + strings.TrimSuffix(name, ".gr") + ".gr": true}
		case "emptyonly":
			accepted = name == ""
			allowed = map[string]bool{"work/.gr": true}
		case "disabled":
			accepted = false
		case "unrestricted":
			accepted = true
		}
		class := "hostile"
		if !hostile {
			class = "plain"
		}
		switch e.Ev {
		case "save", "save-noarg":
			dec := "reject"
			if !isErr {
				dec = "accept"
			}
			key := e.Ev + ":" + name
			if old, ok := decisions[key]; ok && old != dec {
				fail(i, "decision-depends-only-on-name", fmt.Sprintf("save(%q) was %sed earlier and is %sed now", name, old, dec))
			}
			decisions[key] = dec
			if config == "unrestricted" {
				for _, c := range changed {
					if !strings.HasPrefix(c, "work/") {
						res.Escape++ // positive control: the monitor sees writes outside the working directory
					}
				}
				break
			}
			if accepted {
				res.Accepted++
				for _, c := range changed {
					if !allowed[c] {
						fail(i, "write-confined", fmt.Sprintf("save(%q) is an accepted name but changed %v (allowed %v)", name, changed, keysOf(allowed)))
					}
				}
				blocked := false
				for a := range allowed {
					blocked = blocked || obstacles[a]
				}
				if blocked {
					res.Blocked++
				}
				if isErr && !blocked {
					fail(i, "accepted-name-works", fmt.Sprintf("save(%q) must be accepted in %s mode but failed: %v", name, config, truncAll(r.Errs)))
				}
				savedOnce = savedOnce || !isErr
			} else {
				res.Rejected++
				if !isErr {
					fail(i, "rejected-name-errors", fmt.Sprintf("save(%q) must be rejected in %s mode but returned %s", name, config, trunc(r.Echo, 100)))
				}
				if len(changed) > 0 {
					fail(i, "rejected-request-has-no-effect", fmt.Sprintf("rejected save(%q) changed the file system: %v", name, changed))
				}
			}
		case "load", "load-noarg":
			if len(changed) > 0 && config != "unrestricted" {
				fail(i, "load-writes-nothing", fmt.Sprintf("load(%q) changed the file system: %v", name, changed))
			}
			if config != "unrestricted" && !accepted && !isErr {
				fail(i, "rejected-name-errors", fmt.Sprintf("load(%q) must be rejected in %s mode but succeeded", name, config))
			}
			if !accepted {
				res.Rejected++
			}
		case "image":
			if config != "unrestricted" {
				for _, c := range changed {
					if c != "work/grol.png" {
						fail(i, "image-save-fixed-name", fmt.Sprintf("image.save(%q) changed %v", name, changed))
					}
				}
			}
		case "exec":
			if config != "unrestricted" {
				if !isErr || !strings.Contains(strings.Join(r.Errs, " "), "identifier not found") {
					fail(i, "no-process-execution", fmt.Sprintf("%q in %s mode gave %s %v", src, config, r.Class, truncAll(r.Errs)))
				}
				if len(changed) > 0 {
					fail(i, "no-process-execution", fmt.Sprintf("%q changed the file system: %v", src, changed))
				}
			}
		}
		if config != "unrestricted" {
			for _, m := range forbiddenMarkers {
				if _, ok := s.Observe(m); ok {
					fail(i, "read-confined", fmt.Sprintf("after %q the binding %s of a file outside the allowed set is visible", src, m))
				}
			}
		}
		res.Shape = append(res.Shape, e.Ev+":"+class+":"+r.Class)
		prev = now
		if res.Viol != nil {
			break
		}
	}
	res.Ticks = s.W.Ticks
	_ = savedOnce
	_ = json.NewEncoder(os.Stdout).Encode(res)
	return 0
}

func keysOf(m map[string]bool) []string {
	var ks []string
	for k := range m {
		ks = append(ks, k)
	}
	return ks
}

func (c17) Execute(h *core.History) *core.Outcome {
	o := &core.Outcome{}
	st := &o.Stats
	base := os.Getenv("VERIF_TMP")
	if base == "" {
		base = os.TempDir()
	}
	root, err := os.MkdirTemp(base, "c17-")
	if err != nil {
		panic(err)
	}
	defer os.RemoveAll(root)
	hf := filepath.Join(root, "..", filepath.Base(root)+".history.json")
	hb, _ := json.Marshal(h)
	if err := os.WriteFile(hf, hb, 0o644); err != nil {
		panic(err)
	}
	defer os.Remove(hf)
	self, _ := os.Executable()
	cmd := exec.Command(self, "worker", "c17", root, hf)
	var ob, eb bytes.Buffer
	cmd.Stdout, cmd.Stderr = &ob, &eb
	st.Children = 1
	if err := cmd.Run(); err != nil {
		st.Discarded = true
		st.Panic("c17 worker failed: " + err.Error() + " " + trunc(eb.String(), 300))
		st.Shape = "worker-failed"
		return o
	}
	var res c17Result
	if json.Unmarshal(ob.Bytes(), &res) != nil {
		st.Discarded = true
		st.Panic("bad c17 worker output " + trunc(ob.String(), 200))
		st.Shape = "worker-failed"
		return o
	}
	o.Viol = res.Viol
	st.Ticks = res.Ticks
	st.ProbeN("hostile_names_submitted", res.Hostile)
	st.ProbeN("accepted_saves", res.Accepted)
	st.ProbeN("rejected_requests", res.Rejected)
	for k := 0; k < res.Obstacles; k++ {
		st.Fault("target_exists_as_directory")
	}
	st.ProbeN("accepted_saves_failing_on_a_directory_target", res.Blocked)
	st.ProbeN("control_escapes_seen_by_monitor_in_unrestricted_mode", res.Escape)
	st.Nontrivial = res.Hostile > 0 && res.Accepted > 0
	st.Shape = shapeOf(append([]string{h.Strs["config"]}, res.Shape...))
	return o
}
