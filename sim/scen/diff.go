package scen

import (
	"fmt"
	"regexp"
	"sort"
	"strings"

	"verifsim/core"
	"verifsim/world"
)

// runPair executes the same concrete history on two sessions that differ only in configuration
// (cfgRef = the reference configuration) and compares every input's observable record.
// Events tagged "fail" carry faults; their own record is compared only when cmpFaulted is true.
type pairOpts struct {
	cmpFaulted bool // compare the faulted inputs themselves as well
	cmpEnv     bool // compare rand()/time.now() call counts per input
	sigPrefix  string
	sigOf      func(h *core.History, i int, aspect string) string
	onInput    func(i int, a, b *world.InRes)
	globals    func(s *world.Session) string // how final globals are rendered for comparison (default: without generator loop variables)
}

func runPair(h *core.History, cfgRef, cfgAlt world.SessCfg, po pairOpts, o *core.Outcome) {
	st := &o.Stats
	ref := world.NewSession(cfgRef)
	alt := world.NewSession(cfgAlt)
	st.Execs += 2
	var shape []string
	seenFault := false
	for i := range h.Events {
		e := &h.Events[i]
		if e.Ev != "input" {
			continue
		}
		src := e.Source()
		a := ref.Input(src, e.Fault)
		b := alt.Input(src, e.Fault)
		if a.BudgetHit {
			st.Discarded = true
			break
		}
		if b.BudgetHit {
			// the reference configuration finished well inside the tick budget, the other one ran away
			o.Viol = &core.Violation{Oracle: "config-equivalence", Event: i, Sig: po.sigPrefix + "|runaway",
				Detail: fmt.Sprintf("input #%d %q: reference config finishes in %d ticks (%s), the other config exceeds the budget of %d ticks", i, trunc(src, 300), a.Ticks, a.Class, b.Ticks)}
			if po.sigOf != nil {
				o.Viol.Sig = po.sigOf(h, i, "runaway")
			}
			break
		}
		if po.onInput != nil {
			po.onInput(i, &a, &b)
		}
		fk := ""
		if e.Fault != nil {
			fk = e.Fault.Kind
			if a.Fired || a.MemRefused || a.WriterFaults > 0 {
				st.Fault(fk)
				seenFault = true
			}
			if b.Fired && strings.Contains(e.Key, "captured-output") {
				st.Probe("deadline_fired_inside_captured_output")
			}
		}
		shape = append(shape, e.Tag+":"+fk+":"+a.Class+"/"+b.Class)
		if a.Class != "value" {
			seenFault = true
		}
		if e.Fault != nil && !po.cmpFaulted {
			continue
		}
		asp := diffAspect(&a, &b)
		if asp == "" && po.cmpEnv && (a.RandCalls != b.RandCalls || a.NowCalls != b.NowCalls || a.SleepCalls != b.SleepCalls) {
			asp = "envcalls"
		}
		if asp != "" && o.Viol == nil {
			sig := po.sigPrefix + "|" + asp
			if po.sigOf != nil {
				sig = po.sigOf(h, i, asp)
			}
			o.Viol = &core.Violation{
				Oracle: "config-equivalence",
				Event:  i,
				Sig:    sig,
				Detail: fmt.Sprintf("input #%d %q: reference config -> %s rand=%d now=%d sleep=%d ; other config -> %s rand=%d now=%d sleep=%d errs=%v / %v",
					i, trunc(src, 300), a.Key(), a.RandCalls, a.NowCalls, a.SleepCalls, b.Key(), b.RandCalls, b.NowCalls, b.SleepCalls, truncAll(a.Errs), truncAll(b.Errs)),
			}
			break
		}
	}
	_ = seenFault
	st.Ticks += ref.W.Ticks + alt.W.Ticks
	if o.Viol == nil && !st.Discarded {
		ga, gb := saveTextNoLoopVars(ref), saveTextNoLoopVars(alt)
		st.State(ga)
		if ga != gb {
			sig := po.sigPrefix + "|globals"
			if po.sigOf != nil {
				sig = po.sigOf(h, -1, "globals")
			}
			o.Viol = &core.Violation{Oracle: "config-equivalence-globals", Sig: sig,
				Detail: fmt.Sprintf("final globals differ:\nreference config:\n%s\nother config:\n%s", trunc(ga, 800), trunc(gb, 800))}
		}
	}
	if st.Discarded {
		o.Viol = nil
	}
	st.Shape = shapeOf(shape)
}

func truncAll(xs []string) []string {
	out := make([]string, len(xs))
	for i, x := range xs {
		out[i] = trunc(x, 160)
	}
	return out
}

// featureSig derives a narrow signature from the *minimised* history: the syntactic features
// present in its remaining source texts, taken from a fixed vocabulary.
func featureSig(h *core.History, vocab []struct{ name, needle string }) string {
	var all strings.Builder
	for i := range h.Events {
		all.WriteString(h.Events[i].Source())
		all.WriteString("\n")
	}
	src := all.String()
	var feats []string
	for _, v := range vocab {
		if strings.Contains(src, v.needle) {
			feats = append(feats, v.name)
		}
	}
	sort.Strings(feats)
	return strings.Join(feats, "+")
}

var loopVarLine = regexp.MustCompile(`(?m)^lv[0-9]+=.*\n`)

// saveTextNoLoopVars is saveText without the bindings of generator loop variables (lv<n>), which
// exist as globals only when registers are disabled (recorded finding, see c05 probes).
func saveTextNoLoopVars(s *world.Session) string {
	var b strings.Builder
	_, err := s.St.SaveGlobals(&b)
	return loopVarLine.ReplaceAllString(b.String(), "") + fmt.Sprint(err)
}
