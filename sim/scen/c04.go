package scen

import (
	"os"
	"strings"
	"time"

	"verifsim/core"
	"verifsim/gen"
	"verifsim/world"
)

// C04 — automatic memoization is unobservable (DESIGN 5.2).
type c04 struct{}

func init() { register(c04{}) }

func (c04) ID() string { return "C04" }

func (c04) Info() core.Info {
	return core.Info{
		Level: "exploration",
		Rule: "seeded swarm generation of REPL input sequences (functions, lambdas and closures defined, redefined, called repeatedly with equal and different arguments incl. verbatim re-submission of earlier inputs, " +
			"reading/writing outer variables, printing, failing, calling rand()/time.now(), functions reading a sometimes-deleted global under catch(), recursion reading a global in every frame, deadline faults inside calls that print or inside a callee whose error the caller catch()es; fixed probes for -0.0 incl. nested in container arguments, variadic keys and save()/load() inside functions in a scratch directory) executed twice on the real code: cache enabled, and cache disabled through hook H1, " +
			"with identical rand/time streams; every input must give identical output bytes, value, outcome class and rand/time call counts, and final globals must agree. " +
			"distinct = distinct sequence of (tag, fault kind, outcome classes); non-trivial = at least one input ran in fewer ticks with the cache on (a cache hit happened).",
		Real:    commonReal,
		Stubbed: commonStubbed,
		Assumptions: []string{
			"log() is never generated (it is documented as not captured by memoization)",
			"time.now is call-ordinal based so a legitimate cache hit (skipped ticks) does not shift it",
			"constructs behind the recorded findings (closures of equal text capturing constants/functions, redefinition of a callee of a cached caller) are confined to fixed probe histories",
		},
	}
}

func (c04) Budget(tier string) core.Budget {
	if tier == "thorough" {
		return core.Budget{Runs: 2000000, WallCap: 20 * time.Minute}
	}
	return core.Budget{Runs: 24000, WallCap: 45 * time.Second}
}

var c04Probes = []struct {
	name   string
	inputs []string
}{
	{"same-text-closures-capturing-constant", []string{`mk = func(N) { func(x) { x + N } }`, `a1 = mk(1)`, `a2 = mk(2)`, `println(a1(5))`, `println(a2(5))`}},
	{"same-text-closures-capturing-function", []string{`mk = func(fn) { func(x) { fn(x) } }`, `d1 = mk(x => x * 2)`, `d2 = mk(x => x * 3)`, `println(d1(5))`, `println(d2(5))`}},
	{"cached-caller-of-redefined-callee", []string{`func g(x) { x + 1 }`, `func f(x) { g(x) }`, `println(f(1))`, `func g(x) { x + 2 }`, `println(f(1))`}},
	{"negative-zero-argument-shares-entry-with-zero", []string{`func inv(x) { 1 / x }`, `println(inv(0.0))`, `println(inv(-0.0))`}},
	{"negative-zero-inside-container-argument", []string{`func inva(a) { 1 / a[0] }`, `println(inva([0.0]))`, `println(inva([-0.0]))`, `func invm(m) { 1 / m.z }`, `println(invm({"z": 0.0}))`, `println(invm({"z": -0.0}))`}},
	{"variadic-array-argument-key", []string{`func va(a, ..) { .. }`, `println(va(1, [[2, 3]]))`, `println(va(1, [2, 3]))`}},
	{"cached-large-array-mutated-through-result", []string{`func mk(n) { [1, 2, 3, 4, 5, 6, 7, 8, 9] + [n] }`, `a = mk(1)`, `a[0] = 99`, `println(mk(1))`}},
	{"cached-closure-factory", []string{`mkc = func() { cnt9 := 0; () => { cnt9 = cnt9 + 1; cnt9 } }`, `ca = mkc()`, `cb = mkc()`, `println(ca(), ca(), cb())`}},
	{"sleep-in-function", []string{`func nap(d) { sleep(d); d }`, `println(nap(0.5))`, `println(nap(0.5))`, `func napc(d) { catch(sleep(d)).err }`, `println(napc(0.25), napc(0.25))`}},
	// IO functions inside a function (the probe runs in a scratch directory)
	{"io-save-in-function", []string{`func sv() { save("c04p").entries }`, `ga1 = 1`, `println(sv())`, `ga2 = 2`, `println(sv())`}},
	{"io-load-in-function", []string{`cnt = 1`, `save("c04q")`, `func ld() { load("c04q"); cnt }`, `println(ld())`, `cnt = 2`, `save("c04q")`, `cnt = 0`, `println(ld())`, `println(cnt)`}},
	// the image registry is state outside the interpreter: functions reading or recreating an image run every time
	{"image-registry-in-function", []string{`func sz9() { len(image.png("i9")) }`, `image.new("i9", 1, 1)`, `za = sz9()`, `image.new("i9", 40, 30)`, `zb = sz9()`, `println(za == zb)`,
		`func mki(n) { image.new(n, 4, 4) }`, `mki("j9")`, `blank9 = image.png("j9")`, `image.set("j9", 1, 1, [255, 0, 0])`, `mki("j9")`, `println(image.png("j9") == blank9)`}},
	{"cached-reader-of-deleted-constant", []string{`LIM = 5`, `func f(x) { x + LIM }`, `println(f(1))`, `del(LIM)`, `LIM = 7`, `println(f(1))`}},
}

func (c04) Generate(r *core.Rng, run int, tier string) *core.History {
	if run < len(c04Probes) {
		h := probeHistory(c04Probes[run].name, c04Probes[run].inputs)
		h.Cfg["envseed"] = 7
		return h
	}
	flags := gen.SwarmFlags(r.Sub("flags"))
	flags.SameTextClosures = false
	flags.RedefineLeafOnly = true
	flags.NoIndexAssign = true      // a cached large container mutated in place is C06's recorded aliasing finding, not a cache defect
	flags.SmallArraysInFuncs = true // same territory: a cached array of more than 8 elements shares spare capacity between the + results of its callers
	flags.Redefine = r.Bool(.5)
	flags.NonDet = r.Bool(.6)
	flags.PrintInFuncs = r.Bool(.8)
	flags.Catch = r.Bool(.6)
	flags.GlobalReads = r.Bool(.8)
	kr := r.Sub("knobs")
	h := &core.History{Cfg: map[string]int64{}, Flags: map[string]bool{}}
	h.Flags["noreg"] = kr.Bool(.3)
	h.Cfg["maxdepth"] = 3000
	h.Cfg["envseed"] = int64(kr.Uint64() >> 1)
	ref := sessCfgOf(h)
	ref.NoCache = true
	g := gen.New(r.Sub("gen"), flags)
	bg := newBaseGen(g, ref)
	n := 4 + kr.Intn(10)
	for i := 0; i < n; i++ {
		if len(bg.Inputs) > 1 && kr.Bool(.35) {
			// verbatim re-submission of an earlier input: same calls, same arguments -> cache hits
			dup := strings.Join(bg.Inputs[kr.Intn(len(bg.Inputs))], "\n")
			if !strings.Contains(dup, "func") && !strings.Contains(dup, "=>") {
				bg.AddFixed(strings.Split(dup, "\n"))
				continue
			}
		}
		bg.Add(1 + kr.Intn(4))
	}
	if len(bg.Inputs) == 0 {
		return nil
	}
	fr := r.Sub("faults")
	for i, in := range bg.Inputs {
		h.Events = append(h.Events, core.Event{Ev: "input", Tag: "base", Stmts: in})
		if i > 0 && fr.Bool(.12) {
			// cancellation while a memoized call is capturing output: the half-evaluated call must not be stored
			tpl := core.Pick(fr, []failTpl{deadlineTemplates[2], deadlineTemplates[3], deadlineTemplates[0], deadlineTemplates[6], deadlineTemplates[6]})
			text := tpl.text(fr, nil)
			res := bg.Try(text, nil)
			T := max(res.Ticks, 2)
			h.Events = append(h.Events, core.Event{Ev: "input", Tag: "fail", Key: tpl.key, Text: text,
				Fault: &core.Fault{Kind: "deadline", At: 1 + fr.Int63n(T)}})
			// and the same call again, uncancelled
			h.Events = append(h.Events, core.Event{Ev: "input", Tag: "base", Text: text})
		}
	}
	h.Cfg["rejects"] = int64(bg.Rejects)
	return h
}

var c04Vocab = []struct{ name, needle string }{
	{"rand", "rand("}, {"now", "time.now"}, {"sleep", "sleep("}, {"print", "print"}, {"closure", "mk_"}, {"lambda", "=>"},
	{"func", "func"}, {"error", "error("}, {"catch", "catch("}, {"del", "del("}, {"variadic", ".."}, {"self", "self"},
}

func (c04) Execute(h *core.History) *core.Outcome {
	o := &core.Outcome{}
	o.Stats.Rejects = int(h.C("rejects"))
	if strings.HasPrefix(h.Strs["probe"], "io-") {
		base := os.Getenv("VERIF_TMP")
		if base == "" {
			base = os.TempDir()
		}
		dir, err := os.MkdirTemp(base, "c04-")
		if err != nil {
			panic(err)
		}
		defer os.RemoveAll(dir)
		cwd, _ := os.Getwd()
		if err := os.Chdir(dir); err != nil {
			panic(err)
		}
		defer func() { _ = os.Chdir(cwd) }()
	}
	ref := sessCfgOf(h)
	ref.NoCache = true
	alt := ref
	alt.NoCache = false
	runPair(h, ref, alt, pairOpts{cmpFaulted: false, cmpEnv: true,
		sigOf: func(h *core.History, i int, asp string) string {
			if p := h.Strs["probe"]; p != "" {
				return "C04|probe:" + p
			}
			return "C04|" + featureSig(h, c04Vocab) + "|" + asp
		},
		onInput: func(i int, a, b *world.InRes) {
			if b.Ticks < a.Ticks && h.Events[i].Fault == nil {
				o.Stats.Nontrivial = true
				o.Stats.Probe("inputs_with_cache_hit")
				if strings.TrimSpace(a.Out) != "" {
					o.Stats.Probe("cache_hit_with_output_replay")
				}
			}
			if a.RandCalls+a.NowCalls > 0 {
				o.Stats.Probe("inputs_calling_rand_or_time")
			}
		}}, o)
	return o
}
