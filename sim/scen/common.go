// Package scen holds one scenario per claimed property: generator + fault space + oracle + signature.
package scen

import (
	"fmt"
	"sort"
	"strings"

	"verifsim/core"
	"verifsim/gen"
	"verifsim/world"
)

var registry = map[string]core.Scenario{}

func register(s core.Scenario) { registry[s.ID()] = s }

func Get(id string) core.Scenario { return registry[id] }

func IDs() []string {
	var ids []string
	for k := range registry {
		ids = append(ids, k)
	}
	sort.Strings(ids)
	return ids
}

var commonReal = []string{
	"lexer", "parser", "ast printer", "macro expansion", "evaluator (eval.State)", "memo cache", "registers",
	"environments", "object maps/arrays", "repl.EvalOne/evalOne", "extensions registry and all non-stubbed callbacks",
}

var commonStubbed = []string{
	"callbacks of rand/time.now/sleep (3 deterministic Go functions; registry entries incl. DontCache/ArgTypes stay real)",
	"wall-clock timer of context.WithTimeout (superseded by SimContext via hook H2; MaxDuration=0)",
	"object.FreeMemory's runtime reading (hook H3): a constant 256 MiB virtual budget, or the armed memory fault's value",
	"repl.Interactive terminal loop (needs a tty; not driven)",
}

// sessCfgOf reads the session configuration stored in a history.
func sessCfgOf(h *core.History) world.SessCfg {
	return world.SessCfg{
		NoReg:       h.F("noreg"),
		NoCache:     h.F("nocache"),
		MaxDepth:    int(h.C("maxdepth")),
		MaxValueLen: int(h.C("maxvaluelen")),
		LineMode:    h.F("linemode"),
		Budget:      h.C("budget"),
		EnvSeed:     uint64(h.C("envseed")),
	}
}

// baseGen builds a base history of succeeding inputs with the generator self-check: every
// candidate input is executed on a scratch session in the scenario's reference configuration; an
// input meant to succeed that does not is regenerated (counted under generator_rejects), so a
// generator defect can never turn into a VIOLATION.
type baseGen struct {
	G       *gen.G
	Cfg     world.SessCfg
	ref     *world.Session
	Inputs  [][]string
	Rejects int
	Ticks   []int64
	Prelude []string
}

func newBaseGen(g *gen.G, cfg world.SessCfg) *baseGen {
	return &baseGen{G: g, Cfg: cfg, ref: world.NewSession(cfg)}
}

func (b *baseGen) rebuild() {
	b.ref = world.NewSession(b.Cfg)
	for _, in := range b.Inputs {
		b.ref.Input(strings.Join(in, "\n"), nil)
	}
}

// Add tries to generate one more succeeding input of about n statements.
func (b *baseGen) Add(n int) bool {
	for try := 0; try < 6; try++ {
		saved := b.G.Clone()
		stmts := b.G.TopInput(n)
		res := b.ref.Input(strings.Join(stmts, "\n"), nil)
		if res.Class == "value" && !res.BudgetHit {
			b.Inputs = append(b.Inputs, stmts)
			b.Ticks = append(b.Ticks, res.Ticks)
			return true
		}
		b.Rejects++
		b.G.Restore(saved)
		b.rebuild()
	}
	return false
}

// AddFixed adds a hand-written input if it succeeds on the reference.
func (b *baseGen) AddFixed(stmts []string) bool {
	res := b.ref.Input(strings.Join(stmts, "\n"), nil)
	if res.Class == "value" && !res.BudgetHit {
		b.Inputs = append(b.Inputs, stmts)
		b.Ticks = append(b.Ticks, res.Ticks)
		return true
	}
	b.Rejects++
	b.rebuild()
	return false
}

// Try runs text on the reference session *without* keeping it (the session is rebuilt afterwards).
func (b *baseGen) Try(text string, f *core.Fault) world.InRes {
	res := b.ref.Input(text, f)
	b.rebuild()
	return res
}

func shapeOf(parts []string) string {
	return fmt.Sprintf("%016x", core.Hash64(strings.Join(parts, "|")))
}

func diffAspect(a, b *world.InRes) string {
	switch {
	case a.Class != b.Class:
		return "class:" + a.Class + "->" + b.Class
	case a.Out != b.Out:
		return "out"
	case a.Class == "value" && a.Echo != b.Echo:
		return "echo"
	}
	return ""
}

func trunc(s string, n int) string {
	if len(s) > n {
		return s[:n] + "…"
	}
	return s
}

// AddAny adds hand-written statements keeping them whatever their outcome class on the reference
// (used for inputs whose failure is intended); only a tick-budget hit rejects.
func (b *baseGen) AddAny(stmts []string) bool {
	res := b.ref.Input(strings.Join(stmts, "\n"), nil)
	if !res.BudgetHit {
		b.Inputs = append(b.Inputs, stmts)
		b.Ticks = append(b.Ticks, res.Ticks)
		return true
	}
	b.Rejects++
	b.rebuild()
	return false
}
