package scen

import (
	"fmt"
	"sort"
	"strconv"
	"strings"
	"time"

	"grol.io/grol/trie"
	"verifsim/core"
	"verifsim/gen"
	"verifsim/world"
)

// C20 — the completion index behaves as a set of words (DESIGN 5.14).
// Sequential-history refinement against a Go map; the order of insertions is the schedule.
type c20 struct{}

func init() { register(c20{}) }

func (c20) ID() string { return "C20" }

func (c20) Info() core.Info {
	return core.Info{
		Level: "exploration",
		Rule: "seeded insertion histories into trie.Trie: sets of <= 6 words of length <= 4 over the alphabets {a,b}, {a,b,c}, {a,b,0x00,0xFF} in a PRNG-chosen order (plus random longer words); after EACH insertion " +
			"Contains is checked for every word of the universe and PrefixAll for every prefix against a map[string]struct{} model (words each once, in byte order, reported length = longest common prefix). " +
			"Second mode: a real session with a trie registered through State.RegisterTrie; after every input (succeeding or failing) the trie content must equal the initial content plus name / name+' ' / name+'(' of everything newly bound at top level, " +
			"and completion queries through PrefixAll(line[:pos]) must extend the typed text to the common prefix of inserted words. " +
			"distinct = distinct (sorted word set, insertion order) resp. session shape; non-trivial = at least one inserted word is a proper prefix of another inserted word or vice versa (end-marker upgrade paths), or a session defined at least one name.",
		Real:        []string{"trie.Trie (Insert, Contains, Prefix, PrefixAll, All, AllBytes)", "object.Environment.RegisterTrie/record", "eval.State + repl.EvalOne for the session mode"},
		Stubbed:     []string{"repl.completion's terminal printing (needs *terminal.Terminal): the simulator calls the Trie.PrefixAll it delegates to"},
		Assumptions: []string{"no faults: the schedule is the insertion order (stated in DESIGN 5.14)"},
	}
}

func (c20) Budget(tier string) core.Budget {
	if tier == "thorough" {
		return core.Budget{Runs: 400000, WallCap: 15 * time.Minute}
	}
	return core.Budget{Runs: 40000, WallCap: 40 * time.Second}
}

var c20Alphabets = []string{"ab", "abc", "ab\x00\xff"}

func universe(alpha string, maxLen int) []string {
	out := []string{""}
	frontier := []string{""}
	for l := 1; l <= maxLen; l++ {
		var next []string
		for _, p := range frontier {
			for i := 0; i < len(alpha); i++ {
				next = append(next, p+string([]byte{alpha[i]}))
			}
		}
		out = append(out, next...)
		frontier = next
	}
	return out
}

func (c20) Generate(r *core.Rng, run int, tier string) *core.History {
	h := &core.History{Cfg: map[string]int64{}, Flags: map[string]bool{}, Strs: map[string]string{}}
	if r.Bool(.15) {
		// session mode
		h.Flags["session"] = true
		flags := gen.SwarmFlags(r.Sub("flags"))
		flags.GlobalWrites = false // no del(name) from functions: the model learns names from the globals after each input
		h.Cfg["maxdepth"] = 1000
		g := gen.New(r.Sub("gen"), flags)
		bg := newBaseGen(g, sessCfgOf(h))
		n := 3 + r.Intn(6)
		for i := 0; i < n; i++ {
			if r.Bool(.2) {
				bg.AddAny([]string{core.Pick(r, []string{`zz9 = 1 / (1 - 1)`, `error("nope")`, `(x => self(x + 1))(0)`, `undefined_name_q + 1`, `qq1 = 5; error("after binding")`,
					// rejected top-level bindings (an extension function's name, a constant bound to another kind): nothing may be recorded
					`pow = 3`, `len = func() { 1 }`, `LIMQ9 = 10`, `LIMQ9 = func() { 1 }`, `LIMQ9 = 10; LIMQ9 = 11`})})
				continue
			}
			bg.Add(1 + r.Intn(3))
		}
		for _, in := range bg.Inputs {
			h.Events = append(h.Events, core.Event{Ev: "input", Stmts: in})
		}
		return h
	}
	alpha := core.Pick(r, c20Alphabets)
	h.Strs["alphabet"] = alpha
	maxLen := 3 + r.Intn(2)
	uni := universe(alpha, maxLen)[1:]
	n := 1 + r.Intn(6)
	for i := 0; i < n; i++ {
		w := core.Pick(r, uni)
		if r.Bool(.5) && len(h.Events) > 0 {
			// bias towards prefix relations: extend or truncate a previous word
			p, _ := strconv.Unquote(h.Events[r.Intn(len(h.Events))].Text)
			if r.Bool(.5) && len(p) > 1 {
				w = p[:1+r.Intn(len(p)-1)]
			} else {
				w = p + string([]byte{alpha[r.Intn(len(alpha))]})
			}
		}
		if r.Bool(.05) {
			w = ""
		}
		if r.Bool(.05) {
			for k := 5 + r.Intn(20); k > 0; k-- {
				w += string([]byte{alpha[r.Intn(len(alpha))]})
			}
		}
		h.Events = append(h.Events, core.Event{Ev: "insert", Text: strconv.Quote(w)}) // quoted: raw bytes 0x00/0xff must survive JSON
	}
	h.Cfg["maxlen"] = int64(maxLen)
	return h
}

func lcp(words []string) int {
	if len(words) == 0 {
		return 0
	}
	p := words[0]
	for _, w := range words[1:] {
		i := 0
		for i < len(p) && i < len(w) && p[i] == w[i] {
			i++
		}
		p = p[:i]
	}
	return len(p)
}

func (c c20) Execute(h *core.History) *core.Outcome {
	if h.F("session") {
		return c.execSession(h)
	}
	o := &core.Outcome{}
	st := &o.Stats
	t := trie.NewTrie()
	model := map[string]struct{}{}
	alpha := h.Strs["alphabet"]
	uni := universe(alpha, int(h.C("maxlen"))+1)
	var order []string
	fail := func(i int, oracle, detail string) {
		if o.Viol == nil {
			o.Viol = &core.Violation{Oracle: oracle, Event: i, Sig: "C20|" + oracle, Detail: detail}
		}
	}
	for i := range h.Events {
		w, err := strconv.Unquote(h.Events[i].Text)
		if err != nil {
			w = h.Events[i].Text
		}
		t.Insert(w)
		if w != "" {
			for m := range model {
				if m != w && (strings.HasPrefix(m, w) || strings.HasPrefix(w, m)) {
					st.Nontrivial = true
					if strings.HasPrefix(m, w) {
						st.Probe("inserted_proper_prefix_of_existing_word")
					} else {
						st.Probe("inserted_extension_of_existing_word")
					}
				}
			}
			model[w] = struct{}{}
		}
		order = append(order, fmt.Sprintf("%q", w))
		// every word of the universe (plus everything inserted)
		check := append([]string(nil), uni...)
		for m := range model {
			check = append(check, m)
		}
		sort.Strings(check) // map order must not decide which mismatch is reported first
		for _, u := range check {
			_, want := model[u]
			if got := t.Contains(u); got != want {
				fail(i, "membership", fmt.Sprintf("after inserting %v: Contains(%q)=%v, model says %v", order, u, got, want))
			}
		}
		for _, p := range check {
			var want []string
			for m := range model {
				if strings.HasPrefix(m, p) {
					want = append(want, m)
				}
			}
			sort.Strings(want)
			l, got := t.PrefixAll(p)
			if strings.Join(got, "\x01") != strings.Join(want, "\x01") {
				fail(i, "prefix-query", fmt.Sprintf("after inserting %v: PrefixAll(%q) = %q, model says %q", order, p, got, want))
			} else if len(want) > 0 && l != lcp(want) {
				fail(i, "common-prefix-length", fmt.Sprintf("after inserting %v: PrefixAll(%q) reports length %d for %q, longest common prefix is %d", order, p, l, got, lcp(want)))
			}
		}
		if o.Viol != nil {
			break
		}
	}
	var ws []string
	for m := range model {
		ws = append(ws, m)
	}
	sort.Strings(ws)
	st.State(strings.Join(ws, "\x01"))
	st.Shape = shapeOf(order)
	return o
}

func (c20) execSession(h *core.History) *core.Outcome {
	o := &core.Outcome{}
	st := &o.Stats
	s := world.NewSession(sessCfgOf(h))
	t := trie.NewTrie()
	s.St.RegisterTrie(t)
	_, initial := t.PrefixAll("")
	model := map[string]struct{}{}
	for _, w := range initial {
		model[w] = struct{}{}
	}
	known := map[string]bool{}
	for _, n := range s.GlobalNames() {
		known[n] = true
	}
	var shape []string
	for i := range h.Events {
		r := s.Input(h.Events[i].Source(), nil)
		shape = append(shape, r.Class)
		for _, n := range s.GlobalNames() {
			if known[n] {
				continue
			}
			known[n] = true
			st.Nontrivial = true
			tree, _ := s.Observe(n)
			suffix := " "
			if strings.HasPrefix(tree, "fn:") {
				suffix = "("
			}
			model[n] = struct{}{}
			model[n+suffix] = struct{}{}
		}
		var want []string
		for m := range model {
			want = append(want, m)
		}
		sort.Strings(want)
		_, got := t.PrefixAll("")
		if strings.Join(got, "\x01") != strings.Join(want, "\x01") && o.Viol == nil {
			o.Viol = &core.Violation{Oracle: "session-index", Event: i, Sig: "C20|session-index",
				Detail: fmt.Sprintf("after input #%d %q (%s): index holds %q, expected %q", i, trunc(h.Events[i].Source(), 200), r.Class, diffWords(got, want), diffWords(want, got))}
			break
		}
		// completion queries as repl/completion.go does: PrefixAll(line[:pos]); result line = commands[0][:l]
		for _, w := range want {
			for pos := 1; pos <= len(w); pos++ {
				typed := w[:pos]
				l, cmds := t.PrefixAll(typed)
				if len(cmds) == 0 || l < len(typed) || l > len(cmds[0]) || !strings.HasPrefix(cmds[0][:l], typed) {
					if o.Viol == nil {
						o.Viol = &core.Violation{Oracle: "completion-extends-typed", Event: i, Sig: "C20|completion-extends-typed",
							Detail: fmt.Sprintf("typed %q: PrefixAll gives l=%d commands=%q", typed, l, cmds)}
					}
					continue
				}
				line := cmds[0][:l]
				ok := false
				for m := range model {
					if strings.HasPrefix(m, line) {
						ok = true
						break
					}
				}
				if !ok && o.Viol == nil {
					o.Viol = &core.Violation{Oracle: "completion-extends-typed", Event: i, Sig: "C20|completion-to-undefined",
						Detail: fmt.Sprintf("typed %q completes to %q which is not a prefix of any defined word", typed, line)}
				}
			}
		}
	}
	st.Ticks = s.W.Ticks
	st.Execs = 1
	st.Shape = shapeOf(append([]string{"session"}, shape...))
	return o
}

func diffWords(a, b []string) []string {
	in := map[string]bool{}
	for _, x := range b {
		in[x] = true
	}
	var out []string
	for _, x := range a {
		if !in[x] {
			out = append(out, x)
		}
	}
	return out
}
