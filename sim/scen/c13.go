package scen

import (
	"context"
	"fmt"
	"strconv"
	"strings"
	"time"

	"grol.io/grol/ast"
	"grol.io/grol/lexer"
	"grol.io/grol/parser"
	"verifsim/core"
	"verifsim/world"
)

// C13 — macro expansion is exact syntactic substitution (DESIGN 5.8).
type c13 struct{}

func init() { register(c13{}) }

func (c13) ID() string { return "C13" }

func (c13) Info() core.Info {
	return core.Info{
		Level: "exploration",
		Rule: "seeded sessions: macros with 0..4 parameters, each unquoted 0..3 times inside a quoted template drawn from an expression grammar (infix, prefix, arrays, calls, if/else, lambdas, map access, println), are defined in one input and used 1..5 times in the same and in later inputs, " +
			"at top level and nested in functions, loops and other macro arguments, with argument expressions that have side effects (println) or looser-binding operators; failing inputs are interleaved between definition and use; macros are redefined between uses (new template, parameters permuted, renamed or of another count) and later uses must follow the new definition; " +
			"the current definitions plus a use are also delivered as one program text through eval() to a fresh session that never saw a macro. " +
			"Reference model: textual substitution done by the harness on the template source (each unquote(p) -> '(' + argument source + ')'), parsed by the real parser. Oracles: structural dump of State.ExpandMacros(program) equals that of the hand-substituted program; " +
			"its printed form (normal and compact) re-parses to the same dump; evaluation output/value equal those of the hand-substituted program on a macro-free session (side effects once per occurrence, none at expansion time); " +
			"the dump of use 1 re-taken after later uses were expanded and evaluated is unchanged (no node sharing, definition unaltered). " +
			"distinct = distinct sequence of (template shape, argument shapes, use site); non-trivial = a parameter is unquoted at least twice or an argument is itself a macro call or has a side effect.",
		Real:        []string{"eval.State.DefineMacros/ExpandMacros, quote/unquote evaluation, ast.Modify", "parser and printer", "repl.EvalOne for evaluation", "macro store persisting across inputs"},
		Stubbed:     commonStubbed,
		Assumptions: []string{"templates are single quoted expressions returning integers", "macro definitions are whole top-level statements name = macro(...) {...}"},
	}
}

func (c13) Budget(tier string) core.Budget {
	if tier == "thorough" {
		return core.Budget{Runs: 300000, WallCap: 20 * time.Minute}
	}
	return core.Budget{Runs: 20000, WallCap: 60 * time.Second}
}

type macroDef struct {
	name   string
	params []string
	tmpl   string // template source with unquote(p) inside
}

var macroParamPool = []string{"a1", "b1", "c1", "d1"}

func genTemplate(r *core.Rng, params []string, depth int, uses map[string]int) string {
	u := func() string {
		if len(params) > 0 && r.Bool(.7) {
			p := core.Pick(r, params)
			if uses[p] < 3 {
				uses[p]++
				return "unquote(" + p + ")"
			}
		}
		if depth < 2 && r.Bool(.3) {
			return "(" + genTemplate(r, params, depth+1, uses) + ")"
		}
		return strconv.Itoa(r.Intn(20))
	}
	switch r.Intn(12) {
	case 0:
		return u()
	case 1, 2:
		return u() + " " + core.Pick(r, []string{"+", "-", "*", "%", "|", "&", "<<"}) + " " + u()
	case 3:
		return "-" + u()
	case 4:
		return "len([" + u() + ", " + u() + ", " + u() + "])"
	case 5:
		return "f0(" + u() + ")"
	case 6:
		return "if (" + u() + " > " + u() + ") { " + u() + " } else { " + u() + " }"
	case 7:
		return "(x9 => x9 + " + u() + ")(" + u() + ")"
	case 8:
		return "{\"k\": " + u() + "}.k"
	case 9:
		return "[" + u() + ", " + u() + "][1]"
	case 10:
		return u() + " * 2 + " + u()
	default:
		return "f0(" + u() + " + 1) - " + u()
	}
}

// argument expressions (harness-side trees so nested macro calls can be substituted recursively)
type margs struct {
	text  string   // plain source when macro == ""
	macro string   // name of a macro when this argument is itself a macro call
	args  []*margs // its arguments
}

func genArg(r *core.Rng, defs []macroDef, depth int) *margs {
	if depth < 2 && len(defs) > 0 && r.Bool(.2) {
		d := core.Pick(r, defs)
		a := &margs{macro: d.name}
		for range d.params {
			a.args = append(a.args, genArg(r, defs, depth+1))
		}
		return a
	}
	return &margs{text: core.Pick(r, []string{
		strconv.Itoa(r.Intn(50)), "1 + 2", "2 * 3 + 1", "7 - 1 - 1", "gv1", "gv1 - 10", "f0(3)",
		"if true { 1 } else { 2 }", "(() => { println(\"arg evaluated\"); 5 })()", "8 >> 1", "-4", "[1, 2, 3][2]", "1 | 6",
	})}
}

func (a *margs) src() string {
	if a.macro == "" {
		return a.text
	}
	parts := make([]string, len(a.args))
	for i, x := range a.args {
		parts[i] = x.src()
	}
	return a.macro + "(" + strings.Join(parts, ", ") + ")"
}

// subst is the reference model: exact textual substitution.
func (a *margs) subst(defs map[string]macroDef) string {
	if a.macro == "" {
		return a.text
	}
	d := defs[a.macro]
	t := d.tmpl
	for i, p := range d.params {
		t = strings.ReplaceAll(t, "unquote("+p+")", "("+a.args[i].subst(defs)+")")
	}
	return "(" + t + ")"
}

func (c13) Generate(r *core.Rng, run int, tier string) *core.History {
	h := &core.History{Cfg: map[string]int64{"maxdepth": 2000}, Flags: map[string]bool{}, Strs: map[string]string{}}
	h.Flags["nocache"] = r.Bool(.3)
	h.Flags["noreg"] = r.Bool(.3)
	nm := 1 + r.Intn(3)
	var defs []macroDef
	for i := 0; i < nm; i++ {
		np := r.Intn(5)
		d := macroDef{name: fmt.Sprintf("mc%d", i), params: append([]string(nil), macroParamPool[:np]...)}
		if np > 0 && nm > 1 && r.Bool(.25) {
			// a parameter named like ANOTHER macro of the session (or like a constant): it is a new local binding of
			// each expansion and must leave that macro alone
			other := fmt.Sprintf("mc%d", (i+1+r.Intn(nm-1))%nm)
			d.params[r.Intn(np)] = core.Pick(r, []string{other, other, "PA", "min", "max", "exp", "round"})
		}
		d.tmpl = genTemplate(r, d.params, 0, map[string]int{})
		defs = append(defs, d)
	}
	h.Events = append(h.Events, core.Event{Ev: "prelude", Text: "func f0(x) { x * 2 }\ngv1 = 10"})
	oneInput := r.Bool(.4) // all definitions as directly adjacent statements of ONE input
	var batch []string
	for _, d := range defs {
		text := fmt.Sprintf("%s = macro(%s) { quote(%s) }", d.name, strings.Join(d.params, ", "), d.tmpl)
		if oneInput {
			batch = append(batch, text)
			continue
		}
		h.Events = append(h.Events, core.Event{Ev: "define", Name: d.name, Args: d.params, Val: d.tmpl, Text: text})
	}
	if oneInput {
		var names []string
		for _, d := range defs {
			names = append(names, d.name)
		}
		h.Events = append(h.Events, core.Event{Ev: "define", Name: strings.Join(names, ","), Val: "unquote(", Text: strings.Join(batch, "\n")})
	}
	version := map[string]int64{}
	for _, d := range defs {
		version[d.name] = 1
	}
	versionsOf := func(src string) string {
		var parts []string
		for _, d := range defs {
			if strings.Contains(src, d.name+"(") {
				parts = append(parts, fmt.Sprintf("%s:%d", d.name, version[d.name]))
			}
		}
		return strings.Join(parts, ",")
	}
	if r.Bool(.2) {
		// unquote in the FIELD position of a dot access: the argument's identifier is the field name
		h.Events = append(h.Events, core.Event{Ev: "define", Name: "mfld", Args: []string{"o1", "f1"}, Val: "unquote(o1).unquote(f1)",
			Text: "mfld = macro(o1, f1) { quote(unquote(o1).unquote(f1)) }"})
		fld := core.Pick(r, []string{"k", "j"})
		h.Events = append(h.Events, core.Event{Ev: "use", Tag: "sitefield", Text: "println(mfld({\"k\": 5, \"j\": 7}, " + fld + "))", Val: "println(({\"k\": 5, \"j\": 7})." + fld + ")"})
	}
	if r.Bool(.2) {
		// an argument that is itself a quote(...) call is substituted as written (it stays quoted in the expanded program)
		h.Events = append(h.Events, core.Event{Ev: "define", Name: "mq9", Args: []string{"qa", "qb"}, Val: "[unquote(qa), unquote(qb)]",
			Text: "mq9 = macro(qa, qb) { quote([unquote(qa), unquote(qb)]) }"})
		qarg := core.Pick(r, []string{"quote(gv1 + 1)", "quote(3)", "quote(f0(2))"})
		if r.Bool(.5) {
			h.Events = append(h.Events, core.Event{Ev: "use", Tag: "sitequote", Text: "println(mq9(" + qarg + ", gv1))", Val: "println([" + qarg + ", gv1])"})
		} else {
			h.Events = append(h.Events, core.Event{Ev: "use", Tag: "sitequote", Text: "println(mq9(gv1 + 1, " + qarg + "))", Val: "println([gv1 + 1, " + qarg + "])"})
		}
	}
	nu := 1 + r.Intn(5)
	for i := 0; i < nu; i++ {
		if r.Bool(.2) {
			h.Events = append(h.Events, core.Event{Ev: "fail", Text: core.Pick(r, failTemplates).text(r, nil)})
		}
		if i > 0 && r.Bool(.25) {
			// redefinition of an existing macro: new template, parameters permuted, renamed or of another count;
			// later uses must follow the new definition
			k := r.Intn(len(defs))
			np := r.Intn(5)
			params := append([]string(nil), macroParamPool[:np]...)
			switch r.Intn(3) {
			case 0:
				for a := len(params) - 1; a > 0; a-- {
					b := r.Intn(a + 1)
					params[a], params[b] = params[b], params[a]
				}
			case 1:
				for j := range params {
					params[j] = fmt.Sprintf("r%d", j+1)
				}
			}
			nd := macroDef{name: defs[k].name, params: params}
			if r.Bool(.3) && len(params) == len(defs[k].params) {
				// same template text, only the parameter list changes order/names
				nd.tmpl = defs[k].tmpl
				for j, p := range defs[k].params {
					nd.tmpl = strings.ReplaceAll(nd.tmpl, "unquote("+p+")", "unquote(\x00"+fmt.Sprint(j)+")")
				}
				for j := range params {
					nd.tmpl = strings.ReplaceAll(nd.tmpl, "unquote(\x00"+fmt.Sprint(j)+")", "unquote("+params[len(params)-1-j]+")")
				}
			} else {
				nd.tmpl = genTemplate(r, nd.params, 0, map[string]int{})
			}
			defs[k] = nd
			version[nd.name]++
			h.Events = append(h.Events, core.Event{Ev: "define", Tag: "redefine", Name: nd.name, N: version[nd.name], Args: nd.params, Val: nd.tmpl,
				Text: fmt.Sprintf("%s = macro(%s) { quote(%s) }", nd.name, strings.Join(nd.params, ", "), nd.tmpl)})
		}
		d := core.Pick(r, defs)
		call := &margs{macro: d.name}
		for range d.params {
			call.args = append(call.args, genArg(r, defs, 0))
		}
		defmap := map[string]macroDef{}
		for _, x := range defs {
			defmap[x.name] = x
		}
		site := r.Intn(5)
		wrap := func(e string) string {
			switch site {
			case 0:
				return "println(" + e + ")"
			case 1:
				return fmt.Sprintf("func us%d(q1) { %s + q1 }\nprintln(us%d(1))", i, e, i)
			case 2:
				return "for 2 { println(" + e + ") }"
			case 3:
				return "gv2 = " + e + "\nprintln(gv2)"
			default:
				return "println([" + e + ", " + e + "])"
			}
		}
		h.Events = append(h.Events, core.Event{Ev: "use", Tag: fmt.Sprint("site", site), Key: versionsOf(call.src()), Text: wrap(call.src()), Val: wrap(call.subst(defmap))})
		if r.Bool(.15) {
			// the same definitions and use delivered as ONE program text through eval() to a session that never saw a macro
			var all []string
			for _, x := range defs {
				all = append(all, fmt.Sprintf("%s = macro(%s) { quote(%s) }", x.name, strings.Join(x.params, ", "), x.tmpl))
			}
			h.Events = append(h.Events, core.Event{Ev: "evaluse", Tag: fmt.Sprint("evalsite", site),
				Text: strings.Join(all, "\n") + "\n" + wrap(call.src()), Val: wrap(call.subst(defmap))})
		}
	}
	return h
}

func parseProg(src string) (*ast.Statements, []string) {
	p := parser.New(lexer.New(src))
	prog := p.ParseProgram()
	return prog, p.Errors()
}

// panics runs f and returns the panic message if it panicked ("" otherwise).
func panics(f func()) (msg string) {
	defer func() {
		if r := recover(); r != nil {
			msg = fmt.Sprint(r)
		}
	}()
	f()
	return ""
}

func printProg(n ast.Node, compact bool) string {
	ps := ast.NewPrintState()
	ps.Compact = compact
	return n.PrettyPrint(ps).String()
}

func (c13) Execute(h *core.History) *core.Outcome {
	o := &core.Outcome{}
	st := &o.Stats
	cfg := sessCfgOf(h)
	api := world.NewSession(cfg)                                           // Go API: DefineMacros / ExpandMacros, dumps
	real := world.NewSession(cfg)                                          // the macro program through EvalOne
	ref := world.NewSession(cfg)                                           // the hand-substituted, macro-free program through EvalOne
	reps := []*world.Session{world.NewSession(cfg), world.NewSession(cfg)} // printed expansions (normal, compact)
	st.Execs = 5
	fail := func(i int, oracle, detail string) {
		if o.Viol == nil {
			o.Viol = &core.Violation{Oracle: oracle, Event: i, Sig: "C13|" + oracle + "|" + h.Events[i].Tag, Detail: detail}
		}
	}
	var shape []string
	type keptUse struct {
		tree ast.Node
		dump string
	}
	var first *keptUse
	defined := map[string]bool{}
	version := map[string]int64{}
	preluded := false
	preludeText := ""
	for i := range h.Events {
		e := &h.Events[i]
		if e.Ev == "use" {
			// (after shrinking) a use whose macros or helpers are not all defined is not a macro use
			ok := preluded
			for _, name := range []string{"mc0", "mc1", "mc2", "mc3", "mfld", "mq9"} {
				if strings.Contains(e.Text, name+"(") && !defined[name] {
					ok = false
				}
			}
			// ... and one generated against another version of a (re)defined macro is not the recorded use either
			if e.Key != "" {
				for _, nv := range strings.Split(e.Key, ",") {
					name, v, _ := strings.Cut(nv, ":")
					if fmt.Sprint(version[name]) != v {
						ok = false
					}
				}
			}
			if !ok {
				continue
			}
		}
		if e.Ev == "evaluse" && !preluded {
			continue
		}
		switch e.Ev {
		case "evaluse":
			// fresh sessions without any macro: eval("<definitions + use>") against eval("<hand-substituted use>")
			fr, fref := world.NewSession(cfg), world.NewSession(cfg)
			st.Execs += 2
			fr.Input(preludeText, nil)
			fref.Input(preludeText, nil)
			a := fr.Input("eval("+strconv.Quote(e.Text)+")", nil)
			b := fref.Input("eval("+strconv.Quote(e.Val)+")", nil)
			st.Fault("program_delivered_through_eval")
			if asp := diffAspect(&b, &a); asp != "" {
				fail(i, "evaluates-like-substitution", fmt.Sprintf("eval(%q) in a fresh session gives %s ; eval of the hand-substituted %q gives %s", trunc(e.Text, 400), a.Key(), trunc(e.Val, 300), b.Key()))
			}
			st.Ticks += fr.W.Ticks + fref.W.Ticks
			shape = append(shape, "evaluse:"+a.Class)
		case "prelude":
			preluded = true
			preludeText = e.Text
			api.Input(e.Text, nil)
			real.Input(e.Text, nil)
			ref.Input(e.Text, nil)
			reps[0].Input(e.Text, nil)
			reps[1].Input(e.Text, nil)
		case "define":
			r1 := real.Input(e.Text, nil)
			prog, errs := parseProg(e.Text)
			if len(errs) > 0 {
				st.Discarded = true
				st.Panic(fmt.Sprintf("macro definition does not parse: %q %v", trunc(e.Text, 200), truncAll(errs)))
				break
			}
			if r1.Class != "value" || strings.TrimSpace(r1.Out+r1.Echo) != "" {
				// an input made only of macro definitions must be swallowed entirely: nothing left to evaluate
				fail(i, "definition-removed", fmt.Sprintf("the definitions %q were submitted as one input: outcome %s %v, output %q", trunc(e.Text, 300), r1.Class, truncAll(r1.Errs), trunc(r1.Out+r1.Echo, 100)))
				break
			}
			api.St.DefineMacros(prog)
			for _, n := range strings.Split(e.Name, ",") {
				defined[n] = true
				version[n] = 1
				if e.N > 0 {
					version[n] = e.N
				}
			}
			if e.Tag == "redefine" {
				st.Fault("macro_redefined_between_uses")
			}
			if len(prog.Statements) != 0 {
				fail(i, "definition-removed", fmt.Sprintf("DefineMacros left %d statements of %q in the program", len(prog.Statements), trunc(e.Text, 200)))
			}
			shape = append(shape, "def:"+fmt.Sprint(len(e.Args))+":"+fmt.Sprint(strings.Count(e.Val, "unquote(")))
			if strings.Count(e.Val, "unquote(") > len(e.Args) {
				st.Nontrivial = true
			}
		case "fail":
			real.Input(e.Text, nil)
			st.Fault("failing_input_between_definition_and_use")
		case "use":
			if strings.Contains(e.Text, "arg evaluated") || strings.Count(e.Text, "mc") > 1 {
				st.Nontrivial = true
			}
			prog, errs := parseProg(e.Text)
			want, werrs := parseProg(e.Val)
			if len(errs) > 0 || len(werrs) > 0 {
				st.Discarded = true
				st.Panic(fmt.Sprintf("use site does not parse: %v / %v : %q / %q", truncAll(errs), truncAll(werrs), trunc(e.Text, 200), trunc(e.Val, 200)))
				break
			}
			before := api.Out.Take()
			api.St.DefineMacros(prog)
			// macro bodies are evaluated under the state's context: give it a live one, as EvalOne does
			// (the one left by the previous EvalOne is cancelled)
			cancelCtx := api.St.SetContext(context.Background(), 0)
			exp := api.St.ExpandMacros(prog)
			cancelCtx()
			if out := api.Out.Take(); out != before {
				fail(i, "no-evaluation-during-expansion", fmt.Sprintf("expanding %q printed %q", trunc(e.Text, 200), out))
			}
			// a malformed expansion (nil operands...) makes the real printer or the dump panic: that is the
			// expanded program not printing, not a harness failure
			if msg := panics(func() { dumpAST(exp); printProg(exp, false); printProg(exp, true) }); msg != "" {
				fail(i, "expanded-program-reprints", fmt.Sprintf("use %q: dumping/printing the expanded tree panics: %s", trunc(e.Text, 300), trunc(msg, 200)))
				break
			}
			got, wantDump := dumpAST(exp), dumpAST(want)
			if got != wantDump {
				fail(i, "expansion-equals-substitution", fmt.Sprintf("use %q\nexpanded:    %s\nsubstituted: %s", trunc(e.Text, 300), trunc(got, 600), trunc(wantDump, 600)))
			}
			a := real.Input(e.Text, nil)
			b := ref.Input(e.Val, nil)
			for k, compact := range []bool{false, true} {
				txt := printProg(exp, compact)
				_, rerrs := parseProg(txt)
				if len(rerrs) > 0 {
					fail(i, "expanded-program-reprints", fmt.Sprintf("expanded program printed (compact=%v) as %q re-parses with errors %v", compact, trunc(txt, 300), truncAll(rerrs)))
					continue
				}
				// the printer may legitimately regroup a + (b + c); what must hold is that the printed
				// text evaluates like the hand-substituted program
				pr := reps[k].Input(txt, nil)
				if asp := diffAspect(&b, &pr); asp != "" {
					fail(i, "expanded-program-reprints", fmt.Sprintf("expanded program printed (compact=%v) as %q evaluates to %s, the hand-substituted program to %s", compact, trunc(txt, 300), pr.Key(), b.Key()))
				}
			}
			if asp := diffAspect(&b, &a); asp != "" {
				fail(i, "evaluates-like-substitution", fmt.Sprintf("use %q gives %s ; hand-substituted %q gives %s", trunc(e.Text, 300), a.Key(), trunc(e.Val, 300), b.Key()))
			}
			if first == nil {
				first = &keptUse{tree: exp, dump: got}
			} else if d := dumpAST(first.tree); d != first.dump {
				fail(i, "earlier-expansion-unchanged", fmt.Sprintf("the tree expanded for the first use changed after a later use: was %s now %s", trunc(first.dump, 400), trunc(d, 400)))
			}
			shape = append(shape, "use:"+e.Tag+":"+a.Class)
			st.State(got)
		}
		if st.Discarded || o.Viol != nil {
			break
		}
	}
	if st.Discarded {
		o.Viol = nil
	}
	st.Ticks += real.W.Ticks + ref.W.Ticks
	st.Shape = shapeOf(shape)
	return o
}
