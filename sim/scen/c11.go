package scen

import (
	"fmt"
	"sort"
	"strconv"
	"strings"
	"time"

	"grol.io/grol/object"
	"verifsim/core"
	"verifsim/world"
)

// C11 — maps behave as finite maps in key order, whatever their history (DESIGN 5.7).
// Sequential-history refinement: the only "schedule" is the order of operations, no faults.
type c11 struct{}

func init() { register(c11{}) }

func (c11) ID() string { return "C11" }

func (c11) Info() core.Info {
	return core.Info{
		Level: "exploration",
		Rule: "seeded operation histories (set, update, delete, merge with +, rest, range slicing, literal with duplicate keys, rebuild in permuted order) over a per-run universe of 3..16 keys of mixed types (incl. int/float twins such as 1 and 1.0, which are one key whose first-stored representative must stay) " +
			"(ints, floats, strings, booleans, nil, small arrays), applied in lock-step to (a) object.Map through the Go API, (b) a variable of a real grol session through source text, (c) an association-list model. " +
			"Also: raw range bounds (negative, beyond either end), assignments whose index expression fails, and in 30% of the runs every language-level operation is issued from inside a function on the outer map. After every operation: length, lookup of every universe key, iteration order (first/rest walk and Inspect), equality with a twin built by one canonical literal, and that operands of + are unchanged. " +
			"The model's cross-type key rank is learned once per run from one canonical build (history independence), the order within numbers/strings/booleans is checked independently. " +
			"distinct = distinct sequence of (operation, size class before, size class after); non-trivial = the map crossed the 4-pair threshold at least once (promotion or demotion).",
		Real:        []string{"object.SmallMap/BigMap (Get, Set, Delete, Append, First, Rest, Range, Len, Inspect)", "object.Equals/Cmp", "evaluator paths for m[k]=v, del(), +, first/rest, slicing, map literals, ==", "repl.EvalOne"},
		Stubbed:     []string{"nothing on the Go API path; session path as in the other scenarios (rand/time/sleep callbacks unused)"},
		Assumptions: []string{"no faults: operation order is the schedule", "universes never contain an int and a float of equal value, NaN or -0 (C12's territory)", "the full reachable state space for <= 7 keys is sampled, not enumerated (enumeration would be model checking)"},
	}
}

func (c11) Budget(tier string) core.Budget {
	if tier == "thorough" {
		return core.Budget{Runs: 300000, WallCap: 15 * time.Minute}
	}
	return core.Budget{Runs: 16000, WallCap: 40 * time.Second}
}

type mkey struct {
	src   string // grol source
	class string // num | str | bool | nil | arr
	num   float64
	str   string
}

var keyPool = []mkey{
	{"-5", "num", -5, ""}, {"0", "num", 0, ""}, {"1", "num", 1, ""}, {"2", "num", 2, ""}, {"3", "num", 3, ""}, {"10", "num", 10, ""}, {"100", "num", 100, ""},
	{"-1.5", "num", -1.5, ""}, {"0.5", "num", 0.5, ""}, {"2.5", "num", 2.5, ""}, {"1000.25", "num", 1000.25, ""},
	// twins: floats numerically equal to an integer key above are the SAME key; the representative stored first stays
	{"1.0", "num", 1, ""}, {"2.0", "num", 2, ""}, {"-5.0", "num", -5, ""}, {"100.0", "num", 100, ""},
	{`""`, "str", 0, ""}, {`"a"`, "str", 0, "a"}, {`"ab"`, "str", 0, "ab"}, {`"b"`, "str", 0, "b"}, {`"k1"`, "str", 0, "k1"}, {`"Z"`, "str", 0, "Z"},
	{"true", "bool", 1, ""}, {"false", "bool", 0, ""},
	{"nil", "nil", 0, ""},
	{"[]", "arr", 0, ""}, {"[1]", "arr", 0, ""}, {"[1,2]", "arr", 0, ""}, {`["a"]`, "arr", 0, ""}, {"[2]", "arr", 0, ""},
}

func keyObj(k mkey) object.Object {
	switch k.class {
	case "num":
		if strings.ContainsAny(k.src, ".") {
			return object.Float{Value: k.num}
		}
		return object.Integer{Value: int64(k.num)}
	case "str":
		return object.String{Value: k.str}
	case "bool":
		return object.NativeBoolToBooleanObject(k.num == 1)
	case "nil":
		return object.NULL
	}
	switch k.src {
	case "[]":
		return object.NewArray(nil)
	case "[1]":
		return object.NewArray([]object.Object{object.Integer{Value: 1}})
	case "[2]":
		return object.NewArray([]object.Object{object.Integer{Value: 2}})
	case "[1,2]":
		return object.NewArray([]object.Object{object.Integer{Value: 1}, object.Integer{Value: 2}})
	default:
		return object.NewArray([]object.Object{object.String{Value: "a"}})
	}
}

func (c11) Generate(r *core.Rng, run int, tier string) *core.History {
	h := &core.History{Cfg: map[string]int64{"maxdepth": 1000}, Flags: map[string]bool{}, Strs: map[string]string{}}
	nk := 3 + r.Intn(14)
	if r.Bool(.4) {
		nk = 3 + r.Intn(5) // <= 7 keys: dense coverage around the threshold
	}
	idx := make([]int, len(keyPool))
	for i := range idx {
		idx[i] = i
	}
	core.Shuffle(r, idx)
	idx = idx[:nk]
	sort.Ints(idx)
	var ks []string
	for _, i := range idx {
		ks = append(ks, strconv.Itoa(i))
	}
	h.Strs["keys"] = strings.Join(ks, ",")
	nops := 5 + r.Intn(30)
	val := int64(0)
	// the language-level operations are issued from inside a function on the outer (global) map
	h.Flags["infunc"] = r.Bool(.3)
	pairs := func(n int) []string {
		var out []string
		for j := 0; j < n; j++ {
			val++
			out = append(out, fmt.Sprintf("%d=%d", idx[r.Intn(nk)], val))
		}
		return out
	}
	for i := 0; i < nops; i++ {
		val++
		switch k := r.Intn(20); {
		case k < 8:
			h.Events = append(h.Events, core.Event{Ev: "set", N: int64(idx[r.Intn(nk)]), M: val})
		case k < 12:
			h.Events = append(h.Events, core.Event{Ev: "del", N: int64(idx[r.Intn(nk)])})
		case k < 14:
			h.Events = append(h.Events, core.Event{Ev: "merge", Args: pairs(r.Intn(7))})
		case k < 16:
			h.Events = append(h.Events, core.Event{Ev: "rest"})
		case k < 17:
			h.Events = append(h.Events, core.Event{Ev: "range", N: int64(r.Intn(4)), M: int64(r.Intn(8))})
		case k < 18:
			if r.Bool(.3) {
				// an assignment whose index expression fails: must fail as a whole and store nothing
				h.Events = append(h.Events, core.Event{Ev: "set-bad-index", M: val})
				break
			}
			// raw bounds: negative = from the end, beyond either end = clamped, left > right = error
			h.Events = append(h.Events, core.Event{Ev: "range-raw", N: int64(r.Intn(25) - 12), M: int64(r.Intn(25) - 8)})
		case k < 19:
			h.Events = append(h.Events, core.Event{Ev: "literal", Args: pairs(r.Intn(9))})
		default:
			h.Events = append(h.Events, core.Event{Ev: "rebuild", N: int64(r.Intn(1 << 30))})
		}
	}
	return h
}

type mpair struct {
	k int // index in keyPool
	v int64
}

type c11model struct {
	rank  map[int]int
	pairs []mpair // sorted by rank
}

// sameKey: equal indices, or numerically equal numbers of different types (1 and 1.0 are one key).
func sameKey(a, b int) bool {
	return a == b || (keyPool[a].class == "num" && keyPool[b].class == "num" && keyPool[a].num == keyPool[b].num)
}

func (m *c11model) find(k int) int {
	for i, p := range m.pairs {
		if sameKey(p.k, k) {
			return i
		}
	}
	return -1
}

func (m *c11model) set(k int, v int64) {
	if i := m.find(k); i >= 0 {
		m.pairs[i].v = v
		return
	}
	m.pairs = append(m.pairs, mpair{k, v})
	sort.SliceStable(m.pairs, func(i, j int) bool { return m.rank[m.pairs[i].k] < m.rank[m.pairs[j].k] })
}

func (m *c11model) del(k int) {
	if i := m.find(k); i >= 0 {
		m.pairs = append(m.pairs[:i:i], m.pairs[i+1:]...)
	}
}

func (m *c11model) literal() string {
	parts := make([]string, len(m.pairs))
	for i, p := range m.pairs {
		parts[i] = keyPool[p.k].src + ":" + strconv.FormatInt(p.v, 10)
	}
	return "{" + strings.Join(parts, ",") + "}"
}

func (m *c11model) canon() string {
	var b strings.Builder
	b.WriteString("{")
	for i, p := range m.pairs {
		if i > 0 {
			b.WriteString(",")
		}
		b.WriteString(world.Canon(keyObj(keyPool[p.k])))
		b.WriteString("=>i:")
		b.WriteString(strconv.FormatInt(p.v, 10))
	}
	b.WriteString("}")
	return b.String()
}

func (m *c11model) inspect() string {
	if len(m.pairs) == 0 {
		return "{}"
	}
	parts := make([]string, len(m.pairs))
	for i, p := range m.pairs {
		parts[i] = keyObj(keyPool[p.k]).Inspect() + ":" + strconv.FormatInt(p.v, 10)
	}
	return "{" + strings.Join(parts, ",") + "}"
}

func parsePairs(args []string) []mpair {
	var out []mpair
	for _, a := range args {
		kv := strings.SplitN(a, "=", 2)
		k, _ := strconv.Atoi(kv[0])
		v, _ := strconv.ParseInt(kv[1], 10, 64)
		out = append(out, mpair{k, v})
	}
	return out
}

func pairsLiteral(ps []mpair) string {
	parts := make([]string, len(ps))
	for i, p := range ps {
		parts[i] = keyPool[p.k].src + ":" + strconv.FormatInt(p.v, 10)
	}
	return "{" + strings.Join(parts, ",") + "}"
}

func sizeClass(n int) string {
	switch {
	case n == 0:
		return "0"
	case n <= object.MaxSmallMap:
		return "S"
	}
	return "L"
}

func (c11) Execute(h *core.History) *core.Outcome {
	o := &core.Outcome{}
	st := &o.Stats
	var uni []int
	for _, s := range strings.Split(h.Strs["keys"], ",") {
		k, _ := strconv.Atoi(s)
		uni = append(uni, k)
	}
	fail := func(i int, oracle, detail string) {
		if o.Viol == nil {
			o.Viol = &core.Violation{Oracle: oracle, Event: i, Sig: "C11|" + oracle + "|" + h.Events[max(i, 0)].Ev, Detail: detail}
		}
	}
	// learn the total key order once from one canonical build (history independence, DESIGN 5.7)
	mod := &c11model{rank: map[int]int{}}
	{
		canonMap := object.NewMapSize(len(uni))
		classes := 0
		for i, k := range uni {
			dup := false
			for _, k2 := range uni[:i] {
				dup = dup || sameKey(k, k2)
			}
			if dup {
				continue // a twin of a key already in the canonical build: same key, same rank
			}
			classes++
			canonMap = canonMap.Set(keyObj(keyPool[k]), object.Integer{Value: int64(k)})
		}
		var cur object.Object = canonMap
		pos := 0
		for object.Len(cur) > 0 {
			f, isMap := object.First(cur).(object.Map)
			var v object.Object
			if isMap {
				v, _ = f.Get(object.ValueKey)
			}
			iv, isInt := v.(object.Integer)
			if !isInt {
				fail(-1, "canonical-build", fmt.Sprintf("first() of the canonical map %s is not a {key, value} pair with the stored integer", canonMap.Inspect()))
				st.Shape = "canon"
				return o
			}
			mod.rank[int(iv.Value)] = pos
			pos++
			cur = object.Rest(cur)
		}
		if pos != classes {
			fail(-1, "canonical-build", fmt.Sprintf("canonical build of %d distinct keys iterates %d pairs", classes, pos))
			st.Shape = "canon"
			return o
		}
		for _, k := range uni {
			if _, ok := mod.rank[k]; !ok {
				for _, k2 := range uni {
					if r, ok2 := mod.rank[k2]; ok2 && sameKey(k, k2) {
						mod.rank[k] = r
					}
				}
				st.Probe("universe_with_int_float_twin_keys")
			}
		}
		// documented order inside numbers / strings / booleans, checked independently of the implementation
		for _, a := range uni {
			for _, b := range uni {
				ka, kb := keyPool[a], keyPool[b]
				if ka.class != kb.class {
					continue
				}
				var less bool
				switch ka.class {
				case "num", "bool":
					less = ka.num < kb.num
				case "str":
					less = ka.str < kb.str
				default:
					continue
				}
				if less && mod.rank[a] > mod.rank[b] {
					fail(-1, "documented-order", fmt.Sprintf("key %s iterates after key %s", ka.src, kb.src))
				}
			}
		}
	}
	sess := world.NewSession(sessCfgOf(h))
	st.Execs = 1
	sess.Input("m = {}", nil)
	stmt := func(src string) string { // an operation on m, possibly from inside a function
		if h.F("infunc") {
			return "(() => { " + src + " })()"
		}
		return src
	}
	var gm object.Map = object.NewMapSize(0)
	var shape []string
	check := func(i int) {
		// --- Go API
		if gm.Len() != len(mod.pairs) {
			fail(i, "api-len", fmt.Sprintf("Len()=%d, model %d (%s)", gm.Len(), len(mod.pairs), mod.literal()))
		}
		if got := world.Canon(gm); got != mod.canon() {
			fail(i, "api-iteration", fmt.Sprintf("first/rest walk gives %s, model %s", got, mod.canon()))
		}
		if got := gm.Inspect(); got != mod.inspect() {
			fail(i, "api-inspect", fmt.Sprintf("Inspect()=%s, model %s", got, mod.inspect()))
		}
		for _, k := range uni {
			v, ok := gm.Get(keyObj(keyPool[k]))
			j := mod.find(k)
			if ok != (j >= 0) || (ok && world.Canon(v) != "i:"+strconv.FormatInt(mod.pairs[j].v, 10)) {
				fail(i, "api-lookup", fmt.Sprintf("Get(%s)=(%v,%v), model %s", keyPool[k].src, v.Inspect(), ok, mod.literal()))
			}
		}
		twin := object.NewMapSize(len(mod.pairs))
		for _, p := range mod.pairs {
			twin = twin.Set(keyObj(keyPool[p.k]), object.Integer{Value: p.v})
		}
		if !object.Equals(gm, twin) || object.Cmp(gm, twin) != 0 || !object.Equals(twin, gm) {
			fail(i, "api-equality", fmt.Sprintf("map %s is not equal to its canonically built twin %s", gm.Inspect(), twin.Inspect()))
		}
		// ... and differs from a near twin holding another value under one key. (Whether two maps whose keys are
		// int/float twins - 1 and 1.0 - are equal is a law of the comparison, C12, and is not judged here.)
		if n := len(mod.pairs); n > 0 {
			at := i % n
			near := object.NewMapSize(n)
			for j, p := range mod.pairs {
				if j == at {
					near = near.Set(keyObj(keyPool[p.k]), object.Integer{Value: p.v + 1})
				} else {
					near = near.Set(keyObj(keyPool[p.k]), object.Integer{Value: p.v})
				}
			}
			if object.Equals(gm, near) || object.Equals(near, gm) {
				fail(i, "api-inequality", fmt.Sprintf("map %s equals %s, which holds another value", gm.Inspect(), near.Inspect()))
			}
		}
		// --- grol source
		if got, _ := sess.Observe("m"); got != mod.canon() {
			fail(i, "src-iteration", fmt.Sprintf("session m walks as %s, model %s", got, mod.canon()))
		}
		if got, _ := sess.Observe("len(m)"); got != "i:"+strconv.Itoa(len(mod.pairs)) {
			fail(i, "src-len", fmt.Sprintf("len(m)=%s, model %d", got, len(mod.pairs)))
		}
		if got, _ := sess.Observe("m == " + mod.literal()); got != "b:true" {
			fail(i, "src-equality", fmt.Sprintf("m == %s gives %s (m is %v)", mod.literal(), got, first2(sess.Observe("m"))))
		}
		for _, k := range uni {
			got, _ := sess.Observe("m[" + keyPool[k].src + "]")
			want := "nil"
			if j := mod.find(k); j >= 0 {
				want = "i:" + strconv.FormatInt(mod.pairs[j].v, 10)
			}
			if got != want {
				fail(i, "src-lookup", fmt.Sprintf("m[%s]=%s, model %s in %s", keyPool[k].src, got, want, mod.literal()))
			}
		}
	}
	for i := range h.Events {
		e := &h.Events[i]
		before := len(mod.pairs)
		switch e.Ev {
		case "set":
			k := int(e.N)
			gm = gm.Set(keyObj(keyPool[k]), object.Integer{Value: e.M})
			if r := sess.Input(stmt(fmt.Sprintf("m[%s] = %d", keyPool[k].src, e.M)), nil); r.Class != "value" {
				fail(i, "src-valid-operation-fails", fmt.Sprintf("%q gives %s %v", stmt(fmt.Sprintf("m[%s] = %d", keyPool[k].src, e.M)), r.Class, truncAll(r.Errs)))
			}
			mod.set(k, e.M)
		case "del":
			k := int(e.N)
			var changed bool
			gm, changed = gm.Delete(keyObj(keyPool[k]))
			if changed != (mod.find(k) >= 0) {
				fail(i, "api-delete-result", fmt.Sprintf("Delete(%s) reports changed=%v, model had key: %v", keyPool[k].src, changed, mod.find(k) >= 0))
			}
			r := sess.Input(stmt(fmt.Sprintf("del(m[%s])", keyPool[k].src)), nil)
			if want := fmt.Sprintf("%v\n", mod.find(k) >= 0); r.Echo != want {
				fail(i, "src-delete-result", fmt.Sprintf("%s echoes %q %v, model %q", stmt(fmt.Sprintf("del(m[%s])", keyPool[k].src)), r.Echo, truncAll(r.Errs), want))
			}
			mod.del(k)
		case "merge":
			ps := parsePairs(e.Args)
			var other object.Map = object.NewMapSize(len(ps))
			for _, p := range ps {
				other = other.Set(keyObj(keyPool[p.k]), object.Integer{Value: p.v})
			}
			l0, r0 := gm.Inspect(), other.Inspect()
			res := gm.Append(other)
			if gm.Inspect() != l0 || other.Inspect() != r0 {
				fail(i, "api-merge-modifies-operand", fmt.Sprintf("%s + %s changed an operand: now %s and %s", l0, r0, gm.Inspect(), other.Inspect()))
			}
			gm = res
			sess.Input("keep = m", nil)
			sess.Input("m = m + "+pairsLiteral(ps), nil)
			if got, _ := sess.Observe("keep"); got != mod.canon() {
				fail(i, "src-merge-modifies-operand", fmt.Sprintf("after m = m + %s the old value (bound to keep) reads %s, was %s", pairsLiteral(ps), got, mod.canon()))
			}
			for _, p := range ps {
				mod.set(p.k, p.v)
			}
		case "rest":
			r := gm.Rest()
			if len(mod.pairs) <= 1 {
				if r.Type() != object.NIL {
					fail(i, "api-rest", fmt.Sprintf("Rest() of a %d-pair map is %s, expected nil", len(mod.pairs), r.Inspect()))
				}
				gm = object.NewMapSize(0)
				sess.Input("m = {}", nil)
				mod.pairs = nil
			} else {
				rm, ok := r.(object.Map)
				if !ok {
					fail(i, "api-rest", fmt.Sprintf("Rest() is %s", r.Inspect()))
					break
				}
				gm = rm
				sess.Input("m = rest(m)", nil)
				mod.pairs = append([]mpair(nil), mod.pairs[1:]...)
			}
		case "range":
			l, r := int(e.N), int(e.M)
			n := len(mod.pairs)
			if l > r {
				l, r = r, l
			}
			l, r = min(l, n), min(r, n)
			res := object.Range(gm, int64(l), int64(r))
			rm, ok := res.(object.Map)
			if !ok {
				fail(i, "api-range", fmt.Sprintf("Range(%d,%d) of %s is %s", l, r, gm.Inspect(), res.Inspect()))
				break
			}
			gm = rm
			sess.Input(fmt.Sprintf("m = m[%d:%d]", l, r), nil)
			mod.pairs = append([]mpair(nil), mod.pairs[l:r]...)
		case "set-bad-index":
			r := sess.Input(stmt(fmt.Sprintf("m[no_such_name_zz] = %d", e.M)), nil)
			if r.Class != "lang-error" {
				fail(i, "src-failed-operation-reports-error", fmt.Sprintf("m[no_such_name_zz] = %d gives %s %q", e.M, r.Class, trunc(r.Echo, 80)))
			}
		case "range-raw":
			n := int64(len(mod.pairs))
			l, r := e.N, e.M
			if l < 0 {
				l += n
			}
			if r < 0 {
				r += n
			}
			l, r = max(l, 0), max(r, 0) // before the start = the start
			inverted := l > r           // judged before the bounds are clamped to the length (m[10:9] is an error even on {})
			l, r = min(l, n), min(r, n)
			res := sess.Input(stmt(fmt.Sprintf("m = m[%d:%d]", e.N, e.M)), nil)
			if inverted {
				if res.Class != "lang-error" {
					fail(i, "src-range", fmt.Sprintf("m[%d:%d] on %d pairs (left after right) gives %s", e.N, e.M, n, res.Class))
				}
				break
			}
			if res.Class != "value" {
				fail(i, "src-range", fmt.Sprintf("m[%d:%d] on %d pairs gives %s %v, expected pairs %d..%d", e.N, e.M, n, res.Class, truncAll(res.Errs), l, r))
				break
			}
			rm, ok := object.Range(gm, l, r).(object.Map)
			if !ok {
				fail(i, "api-range", fmt.Sprintf("Range(%d,%d) of %s is not a map", l, r, gm.Inspect()))
				break
			}
			gm = rm
			mod.pairs = append([]mpair(nil), mod.pairs[l:r]...)
		case "literal":
			ps := parsePairs(e.Args)
			gm = object.NewMapSize(len(ps))
			for _, p := range ps {
				gm = gm.Set(keyObj(keyPool[p.k]), object.Integer{Value: p.v})
			}
			sess.Input("m = "+pairsLiteral(ps), nil)
			mod.pairs = nil
			for _, p := range ps {
				mod.set(p.k, p.v)
			}
		case "rebuild":
			// same pairs inserted in a permuted order: the result must not depend on insertion order
			perm := append([]mpair(nil), mod.pairs...)
			core.Shuffle(core.NewRng(uint64(e.N)), perm)
			gm = object.NewMapSize(0)
			for _, p := range perm {
				gm = gm.Set(keyObj(keyPool[p.k]), object.Integer{Value: p.v})
			}
			sess.Input("m = "+pairsLiteral(perm), nil)
		}
		after := len(mod.pairs)
		shape = append(shape, e.Ev+":"+sizeClass(before)+">"+sizeClass(after))
		if sizeClass(before) != sizeClass(after) && (sizeClass(before) == "L" || sizeClass(after) == "L") {
			st.Nontrivial = true
			if sizeClass(after) == "L" {
				st.Probe("small_to_large_promotion")
			} else {
				st.Probe("large_to_small_demotion")
			}
		}
		check(i)
		st.State(mod.literal())
		if o.Viol != nil {
			break
		}
	}
	st.Ticks = sess.W.Ticks
	st.Shape = shapeOf(shape)
	return o
}

func first2(a string, _ bool) string { return a }
