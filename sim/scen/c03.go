package scen

import (
	"bytes"
	"encoding/json"
	"fmt"
	"os"
	"os/exec"
	"path/filepath"
	"strings"
	"time"

	"verifsim/core"
	"verifsim/gen"
	"verifsim/world"
)

// C03 — formatting is canonical: a deterministic fixpoint (DESIGN 5.1). Claimed for its
// history / process clauses; the fixpoint clause is checked on everything that flows through.
type c03 struct{}

func init() {
	register(c03{})
	workers["c03"] = c03Worker
}

func (c03) ID() string { return "C03" }

func (c03) Info() core.Info {
	return core.Info{
		Level: "exploration",
		Rule: "seeded histories inside one process: format(text, normal|compact) events interleaved with full evaluation of other inputs (which intern identifier/register tokens and populate globals) and with repeated formatting of the same text; " +
			"texts come from the workload grammar with line and block comments at statement boundaries, multi-line blocks and map literals, and every formatted output is formatted again. Oracles: (i) every format(text, mode) anywhere in the history yields the bytes of its first occurrence, " +
			"(ii) the bytes equal those produced by a FRESH WORKER PROCESS (different map hash seed, empty interning table) formatting the texts in reverse order, (iii) format(format(t)) == format(t) in both modes, (iv) normal-mode output ends with exactly one newline. " +
			"distinct = distinct (statement kinds, comment placement, interleaving pattern); non-trivial = the text contains a comment or a map literal and at least one other input was evaluated between two formats of it.",
		Real:        []string{"lexer, parser (comment placement flags), ast printer in both modes, token interning table, repl.EvalOne FormatOnly path", "full evaluator for the interleaved inputs", "a second OS process for the cross-process clause"},
		Stubbed:     commonStubbed,
		Assumptions: []string{"'for all parseable source texts' is sampled through the workload grammar; byte-level mutation of programs is input fuzzing and not claimed"},
	}
}

func (c03) Budget(tier string) core.Budget {
	if tier == "thorough" {
		return core.Budget{Runs: 60000, WallCap: 20 * time.Minute}
	}
	return core.Budget{Runs: 6000, WallCap: 60 * time.Second}
}

var c03Comments = []string{"// note", "// x = 1", "/* block */", "/* multi\n   line */", "// trailing ; { [ (", "/**/"}

// decorate adds comments and line breaks at statement boundaries of a generated statement.
func decorate(r *core.Rng, s string) string {
	var b strings.Builder
	inStr := false
	for i := 0; i < len(s); i++ {
		ch := s[i]
		if ch == '"' && (i == 0 || s[i-1] != '\\') {
			inStr = !inStr
		}
		if !inStr && ch == ' ' && i+1 < len(s) && s[i+1] == '}' && r.Bool(.25) {
			// a comment right before a closing brace (same line or own line)
			if r.Bool(.5) {
				b.WriteString(" " + core.Pick(r, c03Comments[2:4]))
			} else {
				b.WriteString("\n" + core.Pick(r, c03Comments[:2]) + "\n")
			}
		}
		b.WriteByte(ch)
		if inStr || i+1 >= len(s) || s[i+1] != ' ' {
			continue
		}
		if ch == '{' || ch == ';' {
			switch r.Intn(6) {
			case 0:
				b.WriteString("\n")
				i++
			case 1:
				b.WriteString(" " + core.Pick(r, c03Comments[:2]) + "\n")
				i++
			case 2:
				b.WriteString("\n" + core.Pick(r, c03Comments) + "\n")
				i++
			case 3:
				b.WriteString(" " + core.Pick(r, c03Comments[2:4]))
			}
		}
	}
	return b.String()
}

func (c03) Generate(r *core.Rng, run int, tier string) *core.History {
	if run == 0 {
		return &core.History{Cfg: map[string]int64{"maxdepth": 2000}, Flags: map[string]bool{}, Strs: map[string]string{"probe": "normal-mode-statement-starting-with-sign"},
			Events: []core.Event{{Ev: "format", Text: "x = 1\n(-x) > 3", N: 0}}}
	}
	flags := gen.SwarmFlags(r.Sub("flags"))
	flags.Comments = true
	flags.Maps = true
	flags.NonDet = false
	flags.SafeCompact = true // no statement starts with a sign (normal mode cannot keep its parentheses: recorded finding, see probe)
	h := &core.History{Cfg: map[string]int64{"maxdepth": 2000}, Flags: map[string]bool{}, Strs: map[string]string{}}
	g := gen.New(r.Sub("gen"), flags)
	bg := newBaseGen(g, sessCfgOf(h))
	for i, n := 0, 3+r.Intn(6); i < n; i++ {
		bg.Add(1 + r.Intn(3))
	}
	if len(bg.Inputs) < 2 {
		return nil
	}
	// a second generator without the SafeCompact restriction: its texts are only formatted in compact mode
	flags2 := flags
	flags2.SafeCompact = false
	g2 := gen.New(r.Sub("gen2"), flags2)
	bg2 := newBaseGen(g2, sessCfgOf(h))
	for i, n := 0, 1+r.Intn(3); i < n; i++ {
		bg2.Add(1 + r.Intn(3))
	}
	compactOnly := map[int]bool{}
	all := append([][]string(nil), bg.Inputs...)
	for _, in := range bg2.Inputs {
		compactOnly[len(all)] = true
		all = append(all, in)
	}
	var texts []string
	for _, in := range all {
		var lines []string
		for _, s := range in {
			if r.Bool(.3) {
				lines = append(lines, core.Pick(r, c03Comments))
			}
			lines = append(lines, decorate(r, s))
		}
		if r.Bool(.2) {
			lines = append(lines, core.Pick(r, c03Comments))
		}
		texts = append(texts, strings.Join(lines, "\n"))
	}
	if r.Bool(.35) {
		// long literals that differ only in their tail (same length, same first 64+ bytes): a token
		// table keyed too coarsely would hand out the first one for the second
		stem := strings.Repeat(core.Pick(r, []string{"lorem ipsum ", "0123456789", "The quick brown fox "}), 12)[:70+r.Intn(20)]
		a, b := r.Intn(5), 5+r.Intn(5)
		if r.Bool(.5) {
			texts = append(texts, fmt.Sprintf("// %s phase %d\nx = 1", stem, a), fmt.Sprintf("// %s phase %d\nx = 1", stem, b))
		} else {
			texts = append(texts, fmt.Sprintf("msg = \"%s %d\"", stem, a), fmt.Sprintf("msg = \"%s %d\"", stem, b))
		}
	}
	if r.Bool(.25) {
		// a string literal holding a raw byte that is not valid UTF-8 (Latin-1 source): printed as \xNN, which must read back as that byte
		texts = append(texts, core.Pick(r, []string{"cafe9 = \"caf\u2400E9\"", "println(\"\u2400FF\u2400E9 x\", len(\"\u2400FF\"))", "m9 = {\"k\u2400E9\": 1}"}))
	}
	if r.Bool(.2) {
		// a comment followed by a statement that starts with a sign: the comment is not the left operand of that sign
		texts = append(texts, core.Pick(r, []string{"// note\n-1\n[2]", "/* block */\n-2 + 5\n[3]", "// x = 1\n+4\n\"s\"", "y7 = 1 // trailing\n-3\n[y7]"}))
	}
	nEv := 6 + r.Intn(14)
	for i := 0; i < nEv; i++ {
		t := r.Intn(len(texts))
		switch r.Intn(5) {
		case 0:
			h.Events = append(h.Events, core.Event{Ev: "input", Text: texts[t]})
		default:
			mode := int64(r.Intn(2))
			if compactOnly[t] {
				mode = 1
			}
			h.Events = append(h.Events, core.Event{Ev: "format", Text: texts[t], N: mode})
		}
	}
	return h
}

// c03Raw turns the JSON-safe markers "\u2400E9" / "\u2400FF" of a history text into the raw bytes 0xE9 / 0xFF
// (invalid UTF-8 inside a string literal of the source; raw bytes would not survive the JSON history file).
func c03Raw(s string) string {
	return strings.NewReplacer("\u2400E9", "\xe9", "\u2400FF", "\xff").Replace(s)
}

type c03Item struct {
	Text    string `json:"text"`
	Compact bool   `json:"compact"`
	Out     string `json:"out"`
	Errs    int    `json:"errs"`
}

// c03Worker formats the items of a JSON file in a fresh process, in reverse order.
func c03Worker(args []string) int {
	b, err := os.ReadFile(args[0])
	if err != nil {
		return 2
	}
	var items []c03Item
	if json.Unmarshal(b, &items) != nil {
		return 2
	}
	s := world.NewSession(world.SessCfg{})
	for i := len(items) - 1; i >= 0; i-- {
		out, errs, _ := s.Format(c03Raw(items[i].Text), items[i].Compact)
		items[i].Out, items[i].Errs = out, len(errs)
	}
	_ = json.NewEncoder(os.Stdout).Encode(items)
	return 0
}

func (c03) Execute(h *core.History) *core.Outcome {
	o := &core.Outcome{}
	st := &o.Stats
	s := world.NewSession(sessCfgOf(h))
	st.Execs = 1
	fail := func(i int, oracle, detail string) {
		if o.Viol == nil {
			o.Viol = &core.Violation{Oracle: oracle, Event: i, Sig: "C03|" + oracle, Detail: detail}
			if p := h.Strs["probe"]; p != "" {
				o.Viol.Sig = "C03|probe:" + p
			}
		}
	}
	firstOut := map[string]string{}
	var order []c03Item
	var shape []string
	evalsSince := map[string]int{}
	evals := 0
	check := func(i int, text string, compact bool, depth int) string {
		key := fmt.Sprintf("%v|%s", compact, text)
		out, errs, pan := s.Format(c03Raw(text), compact)
		if pan || len(errs) > 0 {
			if depth > 0 {
				fail(i, "formatted-output-parses", fmt.Sprintf("formatter output (compact=%v) is rejected by the parser: %v\n%q", compact, truncAll(errs), trunc(text, 400)))
			}
			return ""
		}
		if prev, ok := firstOut[key]; ok {
			if prev != out {
				fail(i, "same-input-same-bytes", fmt.Sprintf("formatting the same text again (after %d evaluations) gives different bytes:\nfirst: %q\nnow:   %q", evals-evalsSince[key], trunc(prev, 400), trunc(out, 400)))
			}
			if evals > evalsSince[key] && (strings.Contains(text, "//") || strings.Contains(text, "/*") || strings.Contains(text, "{\"")) {
				st.Nontrivial = true
			}
		} else {
			firstOut[key] = out
			evalsSince[key] = evals
			order = append(order, c03Item{Text: text, Compact: compact, Out: out})
		}
		if !compact && !(strings.HasSuffix(out, "\n") && !strings.HasSuffix(out, "\n\n")) && out != "" {
			fail(i, "one-trailing-newline", fmt.Sprintf("normal-mode output ends %q", tailStr(out, 20)))
		}
		return out
	}
	for i := range h.Events {
		e := &h.Events[i]
		switch e.Ev {
		case "input":
			r := s.Input(c03Raw(e.Text), nil)
			evals++
			shape = append(shape, "input:"+r.Class)
		case "format":
			compact := e.N == 1
			out := check(i, e.Text, compact, 0)
			if out == "" {
				shape = append(shape, "format:rejected")
				continue
			}
			// fixpoint: formatting the formatted text changes nothing (checked in the mode that produced it)
			out2 := check(i, out, compact, 1)
			if out2 != "" && out2 != out {
				fail(i, "fixpoint", fmt.Sprintf("format(format(t)) != format(t) (compact=%v)\nt:      %q\nfirst:  %q\nsecond: %q", compact, trunc(e.Text, 300), trunc(out, 400), trunc(out2, 400)))
			}
			shape = append(shape, fmt.Sprintf("format:%v:%v:%v", compact, strings.Contains(e.Text, "//"), strings.Contains(e.Text, "/*")))
		}
		if o.Viol != nil {
			break
		}
	}
	// cross-process clause: a fresh worker process formats everything in reverse order
	if o.Viol == nil && len(order) > 0 {
		base := os.Getenv("VERIF_TMP")
		if base == "" {
			base = os.TempDir()
		}
		f, err := os.CreateTemp(base, "c03-*.json")
		if err != nil {
			panic(err)
		}
		defer os.Remove(f.Name())
		in := make([]c03Item, len(order))
		for i, it := range order {
			in[i] = c03Item{Text: it.Text, Compact: it.Compact}
		}
		b, _ := json.Marshal(in)
		_, _ = f.Write(b)
		f.Close()
		self, _ := os.Executable()
		cmd := exec.Command(self, "worker", "c03", f.Name())
		var ob, eb bytes.Buffer
		cmd.Stdout, cmd.Stderr = &ob, &eb
		st.Children++
		if err := cmd.Run(); err != nil {
			st.Discarded = true
			st.Panic("format worker failed: " + err.Error() + " " + trunc(eb.String(), 200))
		} else {
			var got []c03Item
			if json.Unmarshal(ob.Bytes(), &got) != nil || len(got) != len(order) {
				st.Discarded = true
				st.Panic("bad worker output")
			} else {
				for i := range got {
					if got[i].Out != order[i].Out {
						fail(len(h.Events)-1, "same-bytes-in-any-process", fmt.Sprintf("a fresh process formats (compact=%v) %q as %q, this session (after other inputs) as %q", order[i].Compact, trunc(order[i].Text, 300), trunc(got[i].Out, 300), trunc(order[i].Out, 300)))
						break
					}
				}
			}
		}
	}
	if st.Discarded {
		o.Viol = nil
	}
	st.Ticks = s.W.Ticks
	st.Shape = shapeOf(shape)
	_ = filepath.Join
	return o
}
