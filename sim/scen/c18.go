package scen

import (
	"bytes"
	"context"
	"encoding/json"
	"fmt"
	"os"
	"os/exec"
	"os/signal"
	"path/filepath"
	"sort"
	"strconv"
	"strings"
	"syscall"
	"time"

	"grol.io/grol/eval"
	"grol.io/grol/repl"
	"grol.io/grol/simhook"
	"verifsim/core"
	"verifsim/world"
)

// C18 — auto-save is crash-atomic (DESIGN 5.12). Fault enumeration: every crash point of the save
// path of every generated (A,B) pair, plus write failures at a stride of byte offsets.
type c18 struct{}

func init() {
	register(c18{})
	workers["c18"] = c18Worker
}

func (c18) ID() string { return "C18" }

func (c18) Info() core.Info {
	return core.Info{
		Level: "fault_enumeration",
		Rule: "for each generated pair (previous state A, new state B) with 0/1/5/40/200 bindings of mixed value kinds: a reference worker process produces file(A) by a real AutoSave, auto-loads it in a fresh state, applies the inputs leading to B and auto-saves, " +
			"reporting the ordered list of crash points the save passed (before/after CreateTemp, after each written binding, after the last write, before/after rename). Then EVERY crash point of that list is enumerated: a fresh worker repeats the history and SIGKILLs itself at that point; " +
			"afterwards ./.gr must be byte-identical to file(A) or to file(B). Second family: RLIMIT_FSIZE at a stride of byte offsets 0..len(file(B)) with SIGXFSZ ignored (the write fails with EFBIG at that offset, as on a full disk): AutoSave must return an error and ./.gr must equal file(A). " +
			"Third family: the temporary file is unlinked under the running save at the points between its creation and the rename (a tmp reaper / second instance), so the final rename fails: AutoSave must return an error and ./.gr must equal file(A). " +
			"After faults of every family a later healthy session saves a smaller state over what was left behind and ./.gr must be exactly that. Fourth: nothing changed -> no save (inode and mtime of ./.gr unchanged, no temp file). distinct = distinct (size class of A, size class of B, crash point name / fault kind); non-trivial = a crash landed between temp-file creation and rename or a write was refused mid-file.",
		Real:        []string{"repl.AutoSave, repl.AutoLoad, eval.State.SaveGlobals/object.Environment.SaveGlobals, os.CreateTemp/os.Rename and the kernel's file system, repl.EvalOne", "process death by SIGKILL of a real worker process", "EFBIG from the kernel via RLIMIT_FSIZE"},
		Stubbed:     []string{"power loss / fsync ordering (not modelled: page cache survives process death; the property speaks of process death)", "unwritable-directory fault skipped when running as root (permission bits do not bind root)"},
		Assumptions: []string{"crash = process death, not power loss", "crash points are the hook H4 call sites plus one per written binding", "os.CreateTemp names are random and excluded from comparisons; leftover .grol*.tmp files are reported, not judged"},
		Exhaustive:  false,
		Notes:       "exhaustive over the crash points of each generated pair; pairs themselves are sampled",
	}
}

func (c18) Budget(tier string) core.Budget {
	if tier == "thorough" {
		return core.Budget{Runs: 600, WallCap: 20 * time.Minute}
	}
	return core.Budget{Runs: 32, WallCap: 50 * time.Second}
}

func c18Binding(r *core.Rng, i int) string {
	name := fmt.Sprintf("g%03d", i)
	switch r.Intn(7) {
	case 0:
		return fmt.Sprintf("%s = %d", name, r.Intn(100000)-50000)
	case 1:
		return fmt.Sprintf("%s = %q", name, core.Pick(r, strPoolC18))
	case 2:
		return fmt.Sprintf("%s = [%d, %d, %d]", name, r.Intn(9), r.Intn(99), r.Intn(999))
	case 3:
		return fmt.Sprintf("%s = {\"a\": %d, \"b\": [1, 2], \"c\": \"x\"}", name, r.Intn(100))
	case 4:
		return fmt.Sprintf("func %s(x, y) { if x > y { return x - %d }; x * y }", name, r.Intn(10))
	case 5:
		return fmt.Sprintf("%s = %d.5", name, r.Intn(1000))
	default:
		n := 9 + r.Intn(30)
		parts := make([]string, n)
		for k := range parts {
			parts[k] = strconv.Itoa(r.Intn(1000))
		}
		return name + " = [" + strings.Join(parts, ", ") + "]"
	}
}

var strPoolC18 = []string{"", "hello", "two words", "quote\"inside", "tab\there", "line\nbreak", "été"}

func (c18) Generate(r *core.Rng, run int, tier string) *core.History {
	h := &core.History{Cfg: map[string]int64{}, Flags: map[string]bool{}, Strs: map[string]string{}}
	sizes := []int{0, 1, 5, 40, 200}
	na := sizes[run%len(sizes)]
	nb := core.Pick(r, []int{0, 1, 3, 5, 12, 40})
	if tier == "thorough" && r.Bool(.15) {
		nb = 200
	}
	for i := 0; i < na; i++ {
		h.Events = append(h.Events, core.Event{Ev: "input", Tag: "A", Text: c18Binding(r, i)})
	}
	for i := 0; i < nb; i++ {
		idx := 1000 + i
		if na > 0 && r.Bool(.4) {
			idx = r.Intn(na) // overwrite a binding of A
		}
		h.Events = append(h.Events, core.Event{Ev: "input", Tag: "B", Text: c18Binding(r, idx)})
	}
	if nb > 0 && na > 0 && r.Bool(.3) {
		h.Events = append(h.Events, core.Event{Ev: "input", Tag: "B", Text: fmt.Sprintf("del(g%03d)", r.Intn(na))})
	}
	// third incarnation ("recovery"): a later session that shrinks the state and saves without any fault
	for i := 0; i < na; i++ {
		if r.Bool(.8) {
			h.Events = append(h.Events, core.Event{Ev: "input", Tag: "C", Text: fmt.Sprintf("del(g%03d)", i)})
		}
	}
	for i := 0; i < nb; i++ {
		if r.Bool(.8) {
			h.Events = append(h.Events, core.Event{Ev: "input", Tag: "C", Text: fmt.Sprintf("del(g%03d)", 1000+i)})
		}
	}
	h.Events = append(h.Events, core.Event{Ev: "input", Tag: "C", Text: fmt.Sprintf("gzz = %d", r.Intn(100))})
	h.Cfg["na"], h.Cfg["nb"] = int64(na), int64(nb)
	h.Cfg["fsize_stride"] = int64(4 + r.Intn(6))
	return h
}

type c18Report struct {
	Points  []string `json:"points"`
	ExpectA string   `json:"expect_a"`
	ExpectB string   `json:"expect_b"`
	ErrA    string   `json:"err_a"`
	ErrB    string   `json:"err_b"`
	HadA    bool     `json:"had_a"`
	LoadErr string   `json:"load_err"`
}

// c18Worker: worker c18 <dir> <historyfile> <mode> <n>
// mode: ref | crash (n = ordinal of the crash point) | fsize (n = byte limit) | unlinktmp (n = ordinal of the point
// at which the temporary file is unlinked) | recover
func c18Worker(args []string) int {
	dir, hf, mode := args[0], args[1], args[2]
	n, _ := strconv.Atoi(args[3])
	h, err := core.LoadHistory(hf)
	if err != nil {
		fmt.Println("bad history", err)
		return 2
	}
	if err := os.Chdir(dir); err != nil {
		fmt.Println(err)
		return 2
	}
	world.Install(nil)
	opts := repl.EvalStringOptions()
	opts.AutoLoad, opts.AutoSave = true, true
	rep := c18Report{}
	run := func(tag string) (*eval.State, string) {
		s := eval.NewState()
		out := &world.RecWriter{}
		s.Out, s.LogOut, s.NoLog = out, out, true
		if err := repl.AutoLoad(s, opts); err != nil {
			rep.LoadErr = err.Error()
		}
		for i := range h.Events {
			if h.Events[i].Tag == tag {
				repl.EvalOne(context.Background(), s, h.Events[i].Source(), out, opts)
			}
		}
		var b bytes.Buffer
		_, _ = s.SaveGlobals(&b)
		return s, b.String()
	}
	if mode == "recover" {
		// a later, healthy session in the directory a crashed/failed save left behind
		sC, expC := run("C")
		rep.ExpectB = expC
		if err := repl.AutoSave(sC, opts); err != nil {
			rep.ErrB = err.Error()
		}
		_ = json.NewEncoder(os.Stdout).Encode(rep)
		return 0
	}
	// incarnation 1: produce file(A) by a real, unfaulted AutoSave
	_ = os.Remove(repl.AutoSaveFile)
	sA, expA := run("A")
	rep.ExpectA = expA
	if err := repl.AutoSave(sA, opts); err != nil {
		rep.ErrA = err.Error()
	}
	_, statErr := os.Stat(repl.AutoSaveFile)
	rep.HadA = statErr == nil
	// incarnation 2: auto-load, apply B, auto-save under the fault
	sB, expB := run("B")
	rep.ExpectB = expB
	ordinal := 0
	simhook.PointFn = func(name string) {
		rep.Points = append(rep.Points, name)
		if mode == "crash" && ordinal == n {
			_ = syscall.Kill(os.Getpid(), syscall.SIGKILL)
			select {} // never reached
		}
		if mode == "unlinktmp" && ordinal == n {
			// fault: something else (a tmp reaper, a second instance cleaning up) unlinks the temporary file while
			// the save is in progress: the writes still succeed on the open descriptor, the final rename cannot
			m, _ := filepath.Glob(".grol*.tmp")
			for _, f := range m {
				_ = os.Remove(f)
			}
		}
		ordinal++
	}
	var old syscall.Rlimit
	if mode == "fsize" {
		signal.Ignore(syscall.SIGXFSZ)
		_ = syscall.Getrlimit(syscall.RLIMIT_FSIZE, &old)
		lim := old
		lim.Cur = uint64(n)
		if err := syscall.Setrlimit(syscall.RLIMIT_FSIZE, &lim); err != nil {
			fmt.Println("setrlimit", err)
			return 2
		}
	}
	if err := repl.AutoSave(sB, opts); err != nil {
		rep.ErrB = err.Error()
	}
	if mode == "fsize" {
		_ = syscall.Setrlimit(syscall.RLIMIT_FSIZE, &old)
	}
	simhook.PointFn = nil
	_ = json.NewEncoder(os.Stdout).Encode(rep)
	return 0
}

func c18Child(dir, hf, mode string, n int) (rep *c18Report, exit int, killed bool, out string) {
	self, _ := os.Executable()
	cmd := exec.Command(self, "worker", "c18", dir, hf, mode, strconv.Itoa(n))
	var ob, eb bytes.Buffer
	cmd.Stdout, cmd.Stderr = &ob, &eb
	err := cmd.Run()
	if err != nil {
		if ee, ok := err.(*exec.ExitError); ok {
			if ws, ok := ee.Sys().(syscall.WaitStatus); ok && ws.Signaled() {
				return nil, -1, ws.Signal() == syscall.SIGKILL, ob.String() + eb.String()
			}
			return nil, ee.ExitCode(), false, ob.String() + eb.String()
		}
		return nil, 2, false, err.Error()
	}
	var r c18Report
	if e := json.Unmarshal(ob.Bytes(), &r); e != nil {
		return nil, 2, false, "bad report: " + ob.String() + eb.String()
	}
	return &r, 0, false, ""
}

func readOrEmpty(p string) (string, bool) {
	b, err := os.ReadFile(p)
	if err != nil {
		return "", false
	}
	return string(b), true
}

func tmpLeft(dir string) int {
	m, _ := filepath.Glob(filepath.Join(dir, ".grol*.tmp"))
	return len(m)
}

func sizeCls(n int64) string {
	switch {
	case n == 0:
		return "0"
	case n <= 5:
		return "few"
	case n <= 40:
		return "mid"
	}
	return "many"
}

func (c18) Execute(h *core.History) *core.Outcome {
	o := &core.Outcome{}
	st := &o.Stats
	base := os.Getenv("VERIF_TMP")
	if base == "" {
		base = os.TempDir()
	}
	root, err := os.MkdirTemp(base, "c18-")
	if err != nil {
		panic(err)
	}
	defer os.RemoveAll(root)
	hf := filepath.Join(root, "history.json")
	hb, _ := json.Marshal(h)
	if err := os.WriteFile(hf, hb, 0o644); err != nil {
		panic(err)
	}
	newDir := func() string {
		d, err := os.MkdirTemp(root, "w-")
		if err != nil {
			panic(err)
		}
		return d
	}
	gr := func(d string) (string, bool) { return readOrEmpty(filepath.Join(d, ".gr")) }
	fail := func(oracle, point, detail string) {
		if o.Viol == nil {
			o.Viol = &core.Violation{Oracle: oracle, Sig: "C18|" + oracle + "|" + point, Detail: detail}
		}
	}
	var shape []string
	cls := sizeCls(h.C("na")) + ">" + sizeCls(h.C("nb"))
	// reference run
	d0 := newDir()
	ref, code, _, out := c18Child(d0, hf, "ref", -1)
	st.Children++
	if ref == nil {
		if code == 2 && strings.Contains(out, "bad history") {
			st.Discarded = true
			st.Panic("reference worker: " + trunc(out, 200))
		} else {
			fail("unfaulted-save-fails", "worker-died", fmt.Sprintf("the worker doing two plain auto-saves (no fault injected) died: exit %d: %s", code, trunc(tailStr(out, 400), 400)))
		}
		st.Shape = "ref-failed"
		return o
	}
	fileB, hasB := gr(d0)
	fileA := ref.ExpectA
	hadA := ref.HadA
	changed := len(ref.Points) > 0
	if ref.ErrA != "" || ref.ErrB != "" {
		fail("unfaulted-save-fails", "none", fmt.Sprintf("AutoSave without faults returned errors %q / %q", ref.ErrA, ref.ErrB))
	}
	if changed && (!hasB || fileB != ref.ExpectB) {
		fail("complete-new-version", "none", fmt.Sprintf("after an unfaulted save ./.gr (%d bytes, exists=%v) differs from the globals of the saved state (%d bytes)", len(fileB), hasB, len(ref.ExpectB)))
	}
	if !changed {
		// nothing changed -> no save: ./.gr untouched
		if hadA && fileB != fileA {
			fail("no-change-no-save", "none", "state file changed although no binding was set")
		}
		st.Probe("nothing_changed_no_save")
		fileB = fileA
	}
	okFile := func(got string, exists bool) bool {
		if !exists {
			return !hadA // no file at all is only acceptable when there was no previous version
		}
		return (hadA && got == fileA) || got == fileB
	}
	// recovery: whatever an interrupted or failed save left behind (state file, temp files), the next healthy
	// session must be able to save a complete (here: smaller) new version
	recoverCheck := func(d, after string) {
		rep, code, _, out := c18Child(d, hf, "recover", 0)
		st.Children++
		if rep == nil {
			st.Discarded = true
			st.Panic(fmt.Sprintf("recover worker failed (exit %d): %s", code, trunc(out, 200)))
			return
		}
		st.Probe("recovery_saves_after_fault")
		got, exists := gr(d)
		if rep.ErrB != "" {
			fail("save-after-interrupted-save", after, fmt.Sprintf("after %s the next session's AutoSave failed: %s", after, rep.ErrB))
		} else if !exists || got != rep.ExpectB {
			fail("save-after-interrupted-save", after, fmt.Sprintf("after %s the next session saved a smaller state: ./.gr exists=%v has %d bytes, the complete new version has %d bytes; tail %q", after, exists, len(got), len(rep.ExpectB), trunc(tailStr(got, 100), 120)))
		}
	}
	// every crash point
	for p, name := range ref.Points {
		d := newDir()
		_, code, killed, out := c18Child(d, hf, "crash", p)
		st.Children++
		if !killed {
			st.Discarded = true
			st.Panic(fmt.Sprintf("crash worker did not die at point %d %s (exit %d): %s", p, name, code, trunc(out, 200)))
			break
		}
		st.Fault("crash:" + pointClass(name))
		got, exists := gr(d)
		shape = append(shape, cls+":crash:"+pointClass(name))
		if name != "autosave:before-createtemp" && name != "autosave:after-rename" {
			st.Nontrivial = true
			st.Probe("crash_between_tempfile_creation_and_rename")
		}
		if !okFile(got, exists) {
			fail("crash-atomicity", pointClass(name), fmt.Sprintf("process killed at crash point #%d %s: ./.gr exists=%v, %d bytes, is neither the previous version (%d bytes, existed=%v) nor the new version (%d bytes); starts %q",
				p, name, exists, len(got), len(fileA), hadA, len(fileB), trunc(got, 120)))
		}
		st.ProbeN("leftover_tmp_files", tmpLeft(d))
		st.State(fmt.Sprintf("%s|%v|%d", name, exists, len(got)))
		if p%3 == 0 || p >= len(ref.Points)-3 {
			recoverCheck(d, "crash:"+pointClass(name))
		}
		os.RemoveAll(d)
	}
	// rename failures: the temporary file is unlinked under the save at each point between its creation and the rename
	if changed && !st.Discarded {
		for p, name := range ref.Points {
			if name == "autosave:before-createtemp" || name == "autosave:after-rename" {
				continue
			}
			if name == "save:binding" && p%4 != 1 {
				continue
			}
			d := newDir()
			rep, code, _, out := c18Child(d, hf, "unlinktmp", p)
			st.Children++
			if rep == nil {
				fail("failed-save-keeps-previous", "worker-died", fmt.Sprintf("the worker whose temporary file was unlinked at point #%d %s died: exit %d: %s", p, name, code, trunc(tailStr(out, 400), 400)))
				break
			}
			st.Fault("tempfile_unlinked_before_rename")
			st.Nontrivial = true
			got, exists := gr(d)
			shape = append(shape, cls+":unlinktmp:"+pointClass(name))
			if rep.ErrB == "" {
				fail("failed-save-reports-error", "unlinktmp", fmt.Sprintf("temporary file unlinked at point #%d %s so the rename cannot succeed: AutoSave returned no error", p, name))
			}
			if exists != hadA || (exists && got != fileA) {
				fail("failed-save-keeps-previous", "unlinktmp", fmt.Sprintf("rename failed (temporary file unlinked at point #%d %s, AutoSave error %q): ./.gr exists=%v (%d bytes), previous version existed=%v (%d bytes); starts %q", p, name, rep.ErrB, exists, len(got), hadA, len(fileA), trunc(got, 120)))
			}
			recoverCheck(d, "unlinktmp")
			os.RemoveAll(d)
		}
	}
	// write failures at a stride of byte offsets
	if changed && !st.Discarded {
		stride := max(len(fileB)/int(max(h.C("fsize_stride"), 1)), 1)
		var offs []int
		for n := 0; n < len(fileB); n += stride {
			offs = append(offs, n)
		}
		if len(fileB) > 1 {
			offs = append(offs, len(fileB)-1)
		}
		sort.Ints(offs)
		for _, n := range offs {
			d := newDir()
			rep, code, _, out := c18Child(d, hf, "fsize", n)
			st.Children++
			if rep == nil {
				st.Discarded = true
				st.Panic(fmt.Sprintf("fsize worker failed (exit %d): %s", code, trunc(out, 200)))
				break
			}
			got, exists := gr(d)
			shape = append(shape, cls+":fsize")
			// file(A) itself must have been writable: only count cases where the limit did not already break phase A
			if rep.ErrA != "" {
				continue
			}
			st.Fault("write_refused_EFBIG")
			if n > 0 {
				st.Nontrivial = true
			}
			if rep.ErrB == "" {
				fail("failed-save-reports-error", "fsize", fmt.Sprintf("write limit %d bytes < file size %d: AutoSave returned no error", n, len(fileB)))
			}
			wantExists := hadA
			if exists != wantExists || (exists && got != fileA) {
				fail("failed-save-keeps-previous", "fsize", fmt.Sprintf("write refused at byte %d: ./.gr exists=%v (%d bytes), previous version existed=%v (%d bytes); starts %q", n, exists, len(got), hadA, len(fileA), trunc(got, 120)))
			}
			recoverCheck(d, "fsize")
			os.RemoveAll(d)
		}
	}
	if st.Discarded {
		o.Viol = nil
	}
	sort.Strings(shape)
	st.Shape = shapeOf(uniq(shape))
	return o
}

func pointClass(name string) string {
	if name == "save:binding" {
		return "after-binding"
	}
	return strings.TrimPrefix(name, "autosave:")
}

func (c18) Finalise(cov map[string]any, a *core.Agg) {
	cov["crash_points_enumerated_per_pair"] = "all points reported by the reference worker of each pair (before-createtemp, after-createtemp, after-binding x N, after-save, before-rename, after-rename)"
	cov["exhaustive_within_pair"] = true
}
