package scen

import (
	"fmt"
	"sort"
	"strconv"
	"strings"
	"time"

	"verifsim/core"
	"verifsim/gen"
	"verifsim/world"
)

// C10 — a failed input leaves no trace in the session (DESIGN 5.6).
type c10 struct{}

func init() { register(c10{}) }

func (c10) ID() string { return "C10" }

func (c10) Info() core.Info {
	return core.Info{
		Level: "exploration",
		Rule: "seeded swarm generation of session histories: a base history H of succeeding inputs (generator self-checked on a scratch session) " +
			"and H' = H plus side-effect-free failing inputs (language error in nested calls/loops, Go runtime panic inside a function, depth overflow, " +
			"deadline at a PRNG-chosen virtual tick, allocation refusal through the memory seam, writer error, break/continue outside loops, a panic inside eval() or on the right of a pipe) inserted at PRNG-chosen positions and multiplicities; " +
			"a cancelled text is sometimes re-submitted uncancelled later in both; both are executed on the real code and every input of H must give the same output/value/outcome class (and, cache-disabled batch, the same tick count) in H'. " +
			"distinct = distinct sequence of (event tag, fault kind, outcome class); non-trivial = at least one inserted input really failed (fault fired / error / panic) before a compared input.",
		Real:    commonReal,
		Stubbed: commonStubbed,
		Assumptions: []string{
			"failing inputs are side-effect-free by construction (immediately-invoked lambdas with := locals calling only functions the generator knows to be free of global writes and non-determinism)",
			"error message wording is not compared, only outcome classes",
			"no real clock: deadlines are virtual ticks (one tick per evaluated node)",
		},
	}
}

func (c10) Budget(tier string) core.Budget {
	if tier == "thorough" {
		return core.Budget{Runs: 2000000, WallCap: 20 * time.Minute}
	}
	return core.Budget{Runs: 9000, WallCap: 60 * time.Second}
}

type failTpl struct {
	key  string // construct descriptor used in signatures
	kind string // intended failure kind
	text func(r *core.Rng, pure []string) string
}

func pcall(r *core.Rng, pure []string, arg string) string {
	if len(pure) == 0 || r.Bool(.3) {
		return arg
	}
	return core.Pick(r, pure)
}

var failTemplates = []failTpl{
	{"error-in-loop-in-lambda", "lang-error", func(r *core.Rng, _ []string) string {
		return fmt.Sprintf(`(() => { t := 0; for i = %d { t = t + i; if i == %d { error("boom", t) } }; t })()`, 3+r.Intn(4), r.Intn(3))
	}},
	{"error-in-nested-call", "lang-error", func(r *core.Rng, _ []string) string {
		return fmt.Sprintf(`(() => { hh := x => { if x > %d { error("deep") }; x }; gg := y => hh(y) + 1; t := 0; for i = 6 { t = t + gg(i) }; t })()`, r.Intn(4))
	}},
	{"wrong-type-operand", "lang-error", func(_ *core.Rng, _ []string) string { return `(() => { t := "s" - 1; t })()` }},
	{"unknown-identifier", "lang-error", func(_ *core.Rng, _ []string) string { return `(() => { t := 1; t + no_such_var_zz })()` }},
	{"index-oob-assign", "lang-error", func(_ *core.Rng, _ []string) string { return `(() => { l9 := [1, 2]; l9[5] = 1; l9 })()` }},
	{"error-printing-first", "lang-error", func(_ *core.Rng, _ []string) string {
		return `(() => { println("about to fail"); hh := x => { println("in hh", x); error("late") }; hh(1) })()`
	}},
	{"break-outside-loop", "lang-error", func(r *core.Rng, _ []string) string {
		return core.Pick(r, []string{`break`, `continue`, `if true { break }`})
	}},
	{"break-in-lambda-outside-loop", "lang-error", func(r *core.Rng, _ []string) string {
		return core.Pick(r, []string{`(() => { continue })()`, `(() => { if true { break }; 1 })()`, `(() => { hh := x => { break }; hh(1) + 1 })()`, `for 2 { (() => { break })() }`})
	}},
	{"panic-inside-eval-in-function", "panic:runtime", func(r *core.Rng, _ []string) string {
		return core.Pick(r, []string{`(() => { ev9 := c => eval(c); ev9("1 / 0") })()`, `(() => { ev9 := c => { println("evaluating"); eval(c) }; ev9("5 % 0") + 1 })()`, `eval("1 / 0")`})
	}},
	{"panic-on-the-right-of-a-pipe", "panic:runtime", func(r *core.Rng, _ []string) string {
		return core.Pick(r, []string{`"leaked stdin" | (x => 1 / 0)(1)`, `(() => { "piped" | div9(1, 0) })()`})
	}},
	{"div0-in-lambda", "panic:runtime", func(_ *core.Rng, _ []string) string { return `(() => { z9 := 0; 1 / z9 })()` }},
	{"negshift-in-lambda", "panic:runtime", func(_ *core.Rng, _ []string) string { return `(() => { z9 := 0 - 1; 1 << z9 })()` }},
	{"div0-in-nested-call-in-loop", "panic:runtime", func(r *core.Rng, _ []string) string {
		return fmt.Sprintf(`(() => { hh := x => 10 / x; t := 0; for i = %d { t = t + hh(2 - i) }; t })()`, 3+r.Intn(3))
	}},
	{"div0-after-print-in-func", "panic:runtime", func(_ *core.Rng, _ []string) string {
		return `(() => { hh := x => { println("hh", x); 7 % x }; hh(3) + hh(0) })()`
	}},
	{"mod0-toplevel", "panic:runtime", func(_ *core.Rng, _ []string) string { return `5 % (1 - 1)` }},
	// the next three fail before the loop body runs, but only with registers enabled (the scenario uses them then only)
	{"regonly-loopvar-modified", "lang-error", func(_ *core.Rng, _ []string) string { return `for i = 3 { i++ }` }},
	{"regonly-function-literal-in-loop", "lang-error", func(_ *core.Rng, _ []string) string { return `for i = 3 { (x => x + 1)(i) }` }},
	{"regonly-loopvar-postfix-nested", "lang-error", func(_ *core.Rng, _ []string) string { return `for i = 2 { for j = 2 { j-- } }` }},
	{"regonly-toplevel-loop-panic-in-callee", "panic:runtime", func(r *core.Rng, _ []string) string {
		return fmt.Sprintf(`for i = %d { div9(6, 2 - i) }`, 3+r.Intn(3))
	}},
	{"depth-self", "panic:guard-depth", func(_ *core.Rng, _ []string) string { return `(x => self(x + 1))(0)` }},
	{"depth-self-in-loop", "panic:guard-depth", func(_ *core.Rng, _ []string) string {
		return `(() => { rr := x => self(x + 1); for i = 3 { rr(i) } })()`
	}},
	{"depth-nested-source", "panic:guard-depth", func(r *core.Rng, _ []string) string {
		n := 3000
		return strings.Repeat("(", n) + "1" + strings.Repeat(")", n)
	}},
}

var deadlineTemplates = []failTpl{
	{"deadline-long-loop", "cancelled", func(r *core.Rng, _ []string) string {
		return fmt.Sprintf(`(() => { t := 0; for i = %d { t = t + i }; t })()`, 200+r.Intn(3000))
	}},
	{"deadline-nested-loops", "cancelled", func(r *core.Rng, _ []string) string {
		return fmt.Sprintf(`(() => { t := 0; for i = %d { for j = %d { t = t + i * j } }; t })()`, 10+r.Intn(40), 10+r.Intn(40))
	}},
	{"deadline-in-captured-output", "cancelled", func(r *core.Rng, _ []string) string {
		return fmt.Sprintf(`(() => { hh := x => { println("in hh", x); y := x; for j = %d { y = y + j }; y }; hh(1) + hh(2) })()`, 50+r.Intn(400))
	}},
	{"deadline-in-recursion", "cancelled", func(r *core.Rng, _ []string) string {
		return fmt.Sprintf(`(x => if x <= 0 { 0 } else { 1 + self(x - 1) })(%d)`, 10+r.Intn(40))
	}},
	{"deadline-cond-loop", "cancelled", func(r *core.Rng, _ []string) string {
		return fmt.Sprintf(`(() => { w9 := %d; for w9 > 0 { w9 = w9 - 1 }; w9 })()`, 100+r.Intn(2000))
	}},
	{"deadline-list-loop", "cancelled", func(r *core.Rng, _ []string) string {
		return fmt.Sprintf(`(() => { t := 0; for e = 0:%d { t = t + e }; t })()`, 50+r.Intn(200))
	}},
	{"deadline-caught-in-callee", "cancelled", func(r *core.Rng, _ []string) string {
		// the deadline strikes inside slowf; tryf swallows the error with catch() and must not be remembered with it
		return fmt.Sprintf(`(() => { slowf := x => { y := x; for j = %d { y = y + j }; y }; tryf := d => catch(slowf(d)); r := tryf(%d); println(r.err); r.err })()`, 100+r.Intn(300), r.Intn(5))
	}},
	{"deadline-sleep", "cancelled", func(r *core.Rng, _ []string) string {
		return fmt.Sprintf(`(() => { for i = 5 { sleep(%d.5) }; 1 })()`, r.Intn(3))
	}},
}

var memTemplates = []failTpl{
	{"mem-string-repeat", "panic:guard-memory", func(r *core.Rng, _ []string) string {
		return fmt.Sprintf(`(() => { s9 := "abcdefgh" * %d; len(s9) })()`, 50000+r.Intn(100000))
	}},
	{"mem-array-repeat", "panic:guard-memory", func(r *core.Rng, _ []string) string {
		return fmt.Sprintf(`(() => { l9 := [1, 2, 3] * %d; len(l9) })()`, 2000+r.Intn(10000))
	}},
	{"mem-range", "panic:guard-memory", func(r *core.Rng, _ []string) string {
		return fmt.Sprintf(`(() => len(0:%d))()`, 5000+r.Intn(10000))
	}},
	{"mem-in-captured-output", "panic:guard-memory", func(r *core.Rng, _ []string) string {
		return fmt.Sprintf(`(() => { hh := x => { println("alloc", x); len([x] * %d) }; hh(1) + hh(2) })()`, 3000+r.Intn(5000))
	}},
	{"mem-in-loop", "panic:guard-memory", func(r *core.Rng, _ []string) string {
		return fmt.Sprintf(`(() => { t := 0; for i = 4 { t = t + len("xy" * (%d * (i + 1))) }; t })()`, 3000+r.Intn(5000))
	}},
}

var writerTemplates = []failTpl{
	{"writer-toplevel-lambda", "writer", func(_ *core.Rng, _ []string) string {
		return `(() => { println("w1"); println("w2"); 1 })()`
	}},
	{"writer-in-func", "writer", func(_ *core.Rng, _ []string) string {
		return `(() => { hh := x => { println("wf", x); x }; hh(1) + hh(2) })()`
	}},
}

func (c10) Generate(r *core.Rng, run int, tier string) *core.History {
	gr := r.Sub("gen")
	fr := r.Sub("faults")
	flags := gen.SwarmFlags(r.Sub("flags"))
	h := &core.History{Cfg: map[string]int64{}, Flags: map[string]bool{}}
	kr := r.Sub("knobs")
	h.Flags["nocache"] = kr.Bool(.5)
	h.Flags["noreg"] = kr.Bool(.3)
	h.Cfg["maxdepth"] = int64(core.Pick(kr, []int{150, 400, 1000, 4000}))
	h.Cfg["envseed"] = int64(kr.Uint64() >> 1)
	if !h.Flags["nocache"] {
		// keep the expected C04 stale-cache findings out of this scenario (DESIGN 4.1)
		flags.Redefine, flags.SameTextClosures = false, false
	}
	flags.NoFuncLitInLoops = true
	cfg := sessCfgOf(h)
	g := gen.New(gr, flags)
	bg := newBaseGen(g, cfg)
	bg.AddFixed([]string{"func div9(a9, b9) { a9 / b9 }"}) // helper of the failing templates (part of H and H')
	nBase := 3 + kr.Intn(8)
	for i := 0; i < nBase; i++ {
		bg.Add(1 + kr.Intn(4))
	}
	if len(bg.Inputs) == 0 {
		return nil
	}
	// names of pure functions (unused by templates for now but kept in the history for debugging)
	var pure []string
	for _, f := range g.PureFuncs() {
		pure = append(pure, f.Name)
	}
	// failing inputs at PRNG-chosen positions, any multiplicity
	nFail := 1 + fr.Intn(4)
	pos := make([]int, nFail)
	for i := range pos {
		pos[i] = fr.Intn(len(bg.Inputs) + 1)
	}
	sort.Ints(pos)
	mkFail := func() core.Event {
		var tpl failTpl
		var f *core.Fault
		switch k := fr.Intn(10); {
		case k < 4:
			tpl = core.Pick(fr, failTemplates)
			for strings.HasPrefix(tpl.key, "regonly-") && h.Flags["noreg"] {
				tpl = core.Pick(fr, failTemplates)
			}
		case k < 7:
			tpl = core.Pick(fr, deadlineTemplates)
			f = &core.Fault{Kind: "deadline"}
		case k < 9:
			tpl = core.Pick(fr, memTemplates)
			f = &core.Fault{Kind: "mem", Free: int64(core.Pick(fr, []int{0, 1024, 4096, 65536}))}
		default:
			tpl = core.Pick(fr, writerTemplates)
			f = &core.Fault{Kind: "writer", At: int64(1 + fr.Intn(2)), Mode: core.Pick(fr, []string{"err", "short"})}
		}
		text := tpl.text(fr, pure)
		if f != nil && f.Kind == "deadline" {
			// measure the fault-free length on the scratch session, then pick an instant inside it
			res := bg.Try(text, nil)
			T := res.Ticks
			if T < 2 {
				T = 2
			}
			f.At = 1 + fr.Int63n(T)
		}
		if f != nil && f.Kind == "mem" && fr.Bool(.3) {
			f.At = int64(fr.Intn(30)) // memory pressure arriving mid-evaluation
		}
		return core.Event{Ev: "input", Tag: "fail", Key: tpl.key, Text: text, Fault: f}
	}
	var resubmit []string
	addFail := func() {
		ev := mkFail()
		h.Events = append(h.Events, ev)
		if ev.Fault != nil && ev.Fault.Kind == "deadline" && fr.Bool(.5) {
			// the same text again later, uncancelled, in H and H': whatever the cancelled evaluation left behind
			// (memoized partial results...) must not change what it computes
			resubmit = append(resubmit, ev.Text)
		}
		if strings.HasPrefix(ev.Key, "regonly-") || fr.Bool(.1) {
			// any multiplicity: leaks that only show after several failures (8 register slots, depth levels)
			for k := 7 + fr.Intn(4); k > 0; k-- {
				h.Events = append(h.Events, ev)
			}
		}
	}
	pi := 0
	for i, in := range bg.Inputs {
		for pi < len(pos) && pos[pi] == i {
			addFail()
			pi++
		}
		h.Events = append(h.Events, core.Event{Ev: "input", Tag: "base", Stmts: in})
	}
	for pi < len(pos) {
		addFail()
		pi++
	}
	for _, t := range resubmit {
		h.Events = append(h.Events, core.Event{Ev: "input", Tag: "base", Text: t})
	}
	// probes (DESIGN 5.6): output reaches the writer, a function that prints, a counted loop,
	// recursion to MaxDepth-ε, a read of a global.
	D := calibrateDepth(cfg)
	probes := []string{
		`println("probe", 1 + 1)`,
		`func pr9(x) { println("pr9", x); x * 2 }` + "\n" + `pr9(21)`,
		`for i = 3 { println("loop", i) }`,
		`for pv9 = 2 { println("pv", pv9) }` + "\n" + `println(catch(pv9).err)`,
		fmt.Sprintf(`(x => if x <= 0 { 0 } else { 1 + self(x - 1) })(%d)`, D),
	}
	if len(g.Vars) > 0 {
		probes = append(probes, "println("+g.Vars[0].Name+")")
	}
	for _, p := range probes {
		h.Events = append(h.Events, core.Event{Ev: "input", Tag: "probe", Text: p})
	}
	h.Strs = map[string]string{"pure": strings.Join(pure, ",")}
	h.Cfg["rejects"] = int64(bg.Rejects)
	return h
}

var depthCache = map[string]int{}

// calibrateDepth finds (on scratch sessions) the largest recursion argument that still succeeds
// under cfg.MaxDepth, so the probe really runs to MaxDepth-ε.
func calibrateDepth(cfg world.SessCfg) int {
	key := fmt.Sprintf("%d/%v", cfg.MaxDepth, cfg.NoReg)
	if d, ok := depthCache[key]; ok {
		return d
	}
	ok := func(d int) bool {
		s := world.NewSession(cfg)
		r := s.Input(fmt.Sprintf(`(x => if x <= 0 { 0 } else { 1 + self(x - 1) })(%d)`, d), nil)
		return r.Class == "value"
	}
	lo, hi := 1, cfg.MaxDepth // ok(lo) assumed
	for lo < hi {
		mid := (lo + hi + 1) / 2
		if ok(mid) {
			lo = mid
		} else {
			hi = mid - 1
		}
	}
	depthCache[key] = lo
	return lo
}

func (c10) Execute(h *core.History) *core.Outcome {
	o := &core.Outcome{}
	st := &o.Stats
	st.Rejects = int(h.C("rejects"))
	cfg := sessCfgOf(h)
	ref := world.NewSession(cfg)  // H
	sess := world.NewSession(cfg) // H'
	st.Execs = 2
	var shape []string
	failedBefore := false
	var failKeys []string
	for i := range h.Events {
		e := &h.Events[i]
		src := e.Source()
		if e.Tag == "fail" {
			r := sess.Input(src, e.Fault)
			fk := "none"
			if e.Fault != nil {
				fk = e.Fault.Kind
			}
			really := r.Class != "value" || r.WriterFaults > 0
			if really {
				failedBefore = true
				failKeys = append(failKeys, e.Key+"/"+r.Class)
				switch {
				case r.Fired && e.Fault != nil && e.Fault.Kind == "deadline":
					st.Fault("deadline")
					if strings.Contains(e.Key, "captured-output") {
						st.Probe("deadline_fired_inside_captured_output")
					}
				case r.MemRefused:
					st.Fault("alloc_refused")
				case r.WriterFaults > 0:
					st.Fault("writer_" + e.Fault.Mode)
				case r.Class == "panic:runtime":
					st.Fault("runtime_panic")
				case r.Class == "panic:guard-depth":
					st.Fault("depth_overflow")
				case r.Class == "lang-error":
					st.Fault("lang_error")
				default:
					st.Fault("other:" + r.Class)
				}
			} else {
				st.Probe("fail_input_did_not_fail")
			}
			if r.BudgetHit {
				st.Discarded = true
			}
			if really && sess.St.GetPipeValue() != nil && o.Viol == nil {
				// state read by later exec() calls (their stdin): observable only with process execution enabled, so
				// looked at directly
				o.Viol = &core.Violation{Oracle: "later-input-differs", Event: i, Sig: "C10|" + e.Key + "/" + r.Class + "|pipe-value-left",
					Detail: fmt.Sprintf("after the failing input %q the pipe value %q is still set: the next exec() would receive it as stdin", trunc(src, 200), trunc(string(sess.St.GetPipeValue()), 50))}
				break
			}
			shape = append(shape, "fail:"+fk+":"+r.Class)
			continue
		}
		a := ref.Input(src, nil)
		b := sess.Input(src, nil)
		if a.BudgetHit {
			st.Discarded = true
			break
		}
		shape = append(shape, e.Tag+":"+a.Class)
		if failedBefore {
			st.Nontrivial = true
		}
		asp := diffAspect(&a, &b)
		oracle := "later-input-differs"
		if asp == "" && cfg.NoCache && a.Ticks != b.Ticks {
			asp = "ticks"
			oracle = "later-input-progress"
		}
		if asp != "" && o.Viol == nil && !st.Discarded {
			sort.Strings(failKeys)
			o.Viol = &core.Violation{
				Oracle: oracle,
				Event:  i,
				Sig:    "C10|" + strings.Join(uniq(failKeys), "+") + "|" + asp + "|" + e.Tag,
				Detail: fmt.Sprintf("input #%d %q after failing input(s) %v: without them %s ticks=%d; with them %s ticks=%d",
					i, trunc(src, 200), failKeys, a.Key(), a.Ticks, b.Key(), b.Ticks),
			}
		}
	}
	st.Ticks = ref.W.Ticks + sess.W.Ticks
	if o.Viol == nil && !st.Discarded {
		// final globals must agree too
		ga, gb := saveText(ref), saveText(sess)
		st.State(ga)
		if ga != gb {
			sort.Strings(failKeys)
			o.Viol = &core.Violation{Oracle: "final-globals-differ", Sig: "C10|" + strings.Join(uniq(failKeys), "+") + "|globals",
				Detail: fmt.Sprintf("globals without failing inputs:\n%s\nwith:\n%s", trunc(ga, 600), trunc(gb, 600))}
		}
	}
	if st.Discarded {
		o.Viol = nil
	}
	st.Shape = shapeOf(shape)
	return o
}

func uniq(xs []string) []string {
	var out []string
	for i, x := range xs {
		if i == 0 || x != xs[i-1] {
			out = append(out, x)
		}
	}
	return out
}

func saveText(s *world.Session) string {
	var b strings.Builder
	n, err := s.St.SaveGlobals(&b)
	return b.String() + "#" + strconv.Itoa(n) + fmt.Sprint(err)
}
