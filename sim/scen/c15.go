package scen

import (
	"fmt"
	"strings"
	"time"

	"grol.io/grol/lexer"
	"grol.io/grol/parser"
	"grol.io/grol/token"
	"verifsim/core"
	"verifsim/gen"
	"verifsim/world"
)

// C15 — line-at-a-time input is equivalent to whole-file input (DESIGN 5.10).
// The simulator is the transport of source text: it decides fragmentation.
type c15 struct{}

func init() { register(c15{}) }

func (c15) ID() string { return "C15" }

func (c15) Info() core.Info {
	return core.Info{
		Level: "exploration",
		Rule: "seeded scripts from the workload grammar (statements known to the generator, some spread over several lines, comments, macros defined before use, statements starting with a string literal, parameterless lambdas inside open brackets, no top-level return). " +
			"(a) the complete text is parsed with lexer.New and lexer.NewLineMode: identical trees (harness' own structural dump). " +
			"(b) the text is cut at EVERY token boundary (boundaries from the real lexer) plus positions inside string and block-comment tokens; each prefix is parsed in line mode: when the cut lies inside an unclosed ( [ {, string or block comment, or right after a binary operator, the parser must ask for continuation and report no error; " +
			"feeding the text line by line through the REPL's prev+line accumulation must yield the same statements as whole-file parsing. " +
			"(c) the script is delivered to a persistent real session as one input and as consecutive chunks (all 2^(n-1) splits for n <= 7 statements, sampled above), optionally with side-effect-free failing inputs between chunks: identical concatenated program output and identical final globals. " +
			"distinct = distinct (script shape, number of cuts, splits); non-trivial = at least one cut fell inside an open construct and at least one split had >= 2 chunks.",
		Real:        []string{"lexer (both modes)", "parser incl. continuation logic", "repl.EvalOne in line mode and file mode", "macro definition/expansion across inputs", "evaluator, memo cache, registers"},
		Stubbed:     []string{"repl.Interactive's terminal loop: its prev+line accumulation (6 lines) is re-implemented around the real parser/EvalOne"},
		Assumptions: []string{"chunks are aligned with top-level statements known to the generator", "echo of per-chunk results is not compared (two writers), only program output"},
	}
}

func (c15) Budget(tier string) core.Budget {
	if tier == "thorough" {
		return core.Budget{Runs: 200000, WallCap: 20 * time.Minute}
	}
	return core.Budget{Runs: 4000, WallCap: 60 * time.Second}
}

// spread turns a one-line statement into several lines at safe places (after { and ;).
func spread(r *core.Rng, s string) string {
	if !strings.Contains(s, "{") || r.Bool(.5) {
		return s
	}
	// never touch text inside string literals: only split at "{ " and "; " produced by the generator outside quotes
	var b strings.Builder
	inStr := false
	for i := 0; i < len(s); i++ {
		ch := s[i]
		if ch == '"' && (i == 0 || s[i-1] != '\\') {
			inStr = !inStr
		}
		b.WriteByte(ch)
		if !inStr && i+1 < len(s) && s[i+1] == ' ' && (ch == '{' || ch == ';') && r.Bool(.6) {
			b.WriteString("\n ")
			i++
		}
	}
	return b.String()
}

func (c15) Generate(r *core.Rng, run int, tier string) *core.History {
	if run == 0 {
		// fixed probe: a macro redefined between two uses inside ONE script (recorded finding: delivered in one go,
		// every definition of the text is registered before any call site is expanded, so the last one wins)
		return &core.History{Cfg: map[string]int64{"maxdepth": 2000, "splitseed": 1}, Flags: map[string]bool{}, Strs: map[string]string{"probe": "macro-redefined-within-one-script"},
			Events: []core.Event{{Ev: "stmt", Text: "rm9 = macro(x) { quote(unquote(x) + 1) };"}, {Ev: "stmt", Text: "println(rm9(10));"},
				{Ev: "stmt", Text: "rm9 = macro(x) { quote(unquote(x) + 2) };"}, {Ev: "stmt", Text: "println(rm9(10))"}}}
	}
	flags := gen.SwarmFlags(r.Sub("flags"))
	flags.Comments = r.Bool(.5)
	flags.NonDet = false
	h := &core.History{Cfg: map[string]int64{"maxdepth": 2000}, Flags: map[string]bool{}, Strs: map[string]string{}}
	h.Flags["nocache"] = r.Bool(.3)
	g := gen.New(r.Sub("gen"), flags)
	bg := newBaseGen(g, sessCfgOf(h))
	n := 2 + r.Intn(7)
	secondMacro := ""
	if r.Bool(.3) {
		// macros defined before use
		bg.AddFixed([]string{core.Pick(r, []string{
			`unless = macro(cond, thenb) { quote(if (!(unquote(cond))) { unquote(thenb) } else { 0 }) }`,
			`twice = macro(e) { quote(unquote(e) + unquote(e)) }`,
			`swapsub = macro(a1, b1) { quote(unquote(b1) - unquote(a1)) }`,
		})})
		if r.Bool(.5) {
			// a second definition directly after the first (adjacent statements when delivered in one go)
			if bg.AddFixed([]string{`plus1 = macro(e) { quote(unquote(e) + 1) }`}) {
				secondMacro = "plus1"
			}
		}
	}
	for i := 0; i < n; i++ {
		if len(bg.Inputs) > 0 && strings.Contains(bg.Inputs[0][0], "macro(") && r.Bool(.4) {
			name := strings.Fields(bg.Inputs[0][0])[0]
			switch name {
			case "unless":
				bg.AddFixed([]string{fmt.Sprintf(`println(unless(%d > %d, %d))`, r.Intn(9), r.Intn(9), r.Intn(99))})
			case "twice":
				bg.AddFixed([]string{fmt.Sprintf(`println(twice(%d * 2))`, r.Intn(9))})
			default:
				bg.AddFixed([]string{fmt.Sprintf(`println(swapsub(%d, %d + 1))`, r.Intn(9), r.Intn(9))})
			}
			continue
		}
		if r.Bool(.2) {
			// statements whose FIRST token is a string (a cut inside it leaves nothing but an open string), and
			// lambdas without parameters inside open brackets (a cut between `()` and `=>`)
			bg.AddFixed([]string{core.Pick(r, []string{
				`"a string statement"`, "`a raw string\nstatement over two lines`", "rs9 = `raw, with) closing} marks] in it;\nand = ( more { on [ line two`", `"x y" + "z"`,
				fmt.Sprintf(`ff9 = [() => %d, () => %d]`, r.Intn(9), r.Intn(9)), fmt.Sprintf(`println((() => %d)())`, r.Intn(9)),
				fmt.Sprintf(`println(len([() => 1]), (() => { %d })())`, r.Intn(9)),
				fmt.Sprintf(`mm9 = {1 + %d: "x", "k" + "1": %d, len("ab") * 2: 3}`, r.Intn(5), r.Intn(9)), `println({2 * 3: 1}[6], {"a" + "b": 2}.ab)`,
			})})
			continue
		}
		if secondMacro != "" && r.Bool(.3) {
			bg.AddFixed([]string{fmt.Sprintf(`println(plus1(%d * 3))`, r.Intn(9))})
			continue
		}
		bg.Add(1)
	}
	if len(bg.Inputs) < 2 {
		return nil
	}
	if r.Bool(.15) {
		// a value-less return as the very last statement: complete in file mode, must be complete in line mode too
		bg.Inputs = append(bg.Inputs, []string{"return"})
	}
	for _, in := range bg.Inputs {
		// An explicit ';' makes the statement boundary unambiguous: grol's parser continues a statement
		// across a newline when the next line starts with ++ / -- (x\n++y is read as x++; y), which would
		// make "the statements of the script" differ between the generator and the parser.
		t := in[0]
		if t == "return" {
			h.Events = append(h.Events, core.Event{Ev: "stmt", Text: t}) // last statement, no terminator after it
			continue
		}
		if i := strings.Index(t, " // "); i >= 0 {
			t = t[:i] + ";" + t[i:]
		} else {
			t += ";"
		}
		h.Events = append(h.Events, core.Event{Ev: "stmt", Text: spread(r, t)})
		if flags.Comments && r.Bool(.2) {
			// a block comment as a statement of its own, possibly spanning lines (cuts inside it must ask for more)
			h.Events = append(h.Events, core.Event{Ev: "stmt", Text: core.Pick(r, []string{"/* block comment */", "/* spans\n   two lines */", "/* a { [ ( \" unbalanced */", "/*/ odd opener\n   second line */", "/*/\nprintln(\"hidden\")\n*/"})})
		}
	}
	h.Cfg["splitseed"] = int64(r.Uint64() >> 1)
	h.Flags["faults"] = r.Bool(.3)
	h.Cfg["rejects"] = int64(bg.Rejects)
	return h
}

var binaryOps = map[token.Type]bool{
	token.PLUS: true, token.MINUS: true, token.ASTERISK: true, token.SLASH: true, token.PERCENT: true,
	token.EQ: true, token.NOTEQ: true, token.LT: true, token.GT: true, token.LTEQ: true, token.GTEQ: true,
	token.AND: true, token.OR: true, token.BITAND: true, token.BITOR: true, token.BITXOR: true,
	token.LEFTSHIFT: true, token.RIGHTSHIFT: true, token.ASSIGN: true, token.DEFINE: true,
}

type cutInfo struct {
	pos     int
	context string // "" when nothing is required of this cut
}

// cuts lexes the text with the real lexer and classifies every token boundary.
func cuts(text string) []cutInfo {
	l := lexer.New(text)
	var out []cutInfo
	var stack []token.Type
	for i := 0; i < 100000; i++ {
		start := l.Pos()
		t := l.NextToken()
		if t.Type() == token.EOF {
			break
		}
		end := l.Pos()
		switch t.Type() {
		case token.LPAREN, token.LBRACKET, token.LBRACE:
			stack = append(stack, t.Type())
		case token.RPAREN, token.RBRACKET, token.RBRACE:
			if len(stack) > 0 {
				stack = stack[:len(stack)-1]
			}
		case token.STRING, token.BLOCKCOMMENT:
			// a position strictly inside the token: the prefix ends in an open string / comment
			tokStart := strings.LastIndexAny(text[:end-1], "\"`/")
			_ = start
			if tokStart >= 0 && end-tokStart > 3 {
				ctx := "string"
				if t.Type() == token.BLOCKCOMMENT {
					ctx = "block-comment"
				}
				// find the real start of this token: scan back from end for its opening delimiter
				open := findTokenStart(text, end, t)
				if open >= 0 && end-open >= 3 {
					out = append(out, cutInfo{pos: open + 1 + (end-open-2)/2, context: ctx})
				}
			}
		}
		ctx := ""
		if len(stack) > 0 {
			switch stack[len(stack)-1] {
			case token.LPAREN:
				ctx = "paren"
			case token.LBRACKET:
				ctx = "bracket"
			default:
				ctx = "brace"
			}
		} else if binaryOps[t.Type()] {
			ctx = "binop:" + t.Literal()
		}
		out = append(out, cutInfo{pos: end, context: ctx})
	}
	return out
}

// findTokenStart locates the opening delimiter of the string/comment token that ends at `end`.
func findTokenStart(text string, end int, t *token.Token) int {
	if t.Type() == token.BLOCKCOMMENT {
		return strings.LastIndex(text[:end], "/*")
	}
	closer := text[end-1]
	for i := end - 2; i >= 0; i-- {
		if text[i] == closer && (closer == '`' || i == 0 || text[i-1] != '\\') {
			return i
		}
	}
	return -1
}

func parseMode(text string, lineMode bool) (dump string, errs []string, cont bool, panicked string) {
	defer func() {
		if r := recover(); r != nil {
			panicked = fmt.Sprint(r)
		}
	}()
	var l *lexer.Lexer
	if lineMode {
		l = lexer.NewLineMode(text)
	} else {
		l = lexer.New(text)
	}
	p := parser.New(l)
	prog := p.ParseProgram()
	return dumpAST(prog), p.Errors(), p.ContinuationNeeded(), ""
}

func (c15) Execute(h *core.History) *core.Outcome {
	o := &core.Outcome{}
	st := &o.Stats
	st.Rejects = int(h.C("rejects"))
	var stmts []string
	for i := range h.Events {
		stmts = append(stmts, h.Events[i].Text)
	}
	whole := strings.Join(stmts, "\n")
	fail := func(oracle, ctx, detail string) {
		if o.Viol == nil {
			o.Viol = &core.Violation{Oracle: oracle, Sig: "C15|" + oracle + "|" + ctx, Detail: detail}
			if p := h.Strs["probe"]; p != "" {
				o.Viol.Sig = "C15|probe:" + p
			}
		}
	}
	// (a) both lexer modes on the complete program
	dFile, eFile, _, pFile := parseMode(whole, false)
	dLine, eLine, cLine, pLine := parseMode(whole, true)
	if pFile != "" || len(eFile) > 0 {
		st.Discarded = true // the generator produced something the file-mode parser rejects: not this property
		st.Panic("file-mode parse of generated script failed: " + pFile + fmt.Sprint(truncAll(eFile)))
		st.Shape = "unparseable"
		return o
	}
	if pLine != "" || len(eLine) > 0 || cLine || dLine != dFile {
		fail("mode-trees-differ", "complete", fmt.Sprintf("complete program %q: line mode gives panic=%q errors=%v continuation=%v and tree equal=%v", trunc(whole, 300), pLine, truncAll(eLine), cLine, dLine == dFile))
	}
	// (b) every cut
	cs := cuts(whole)
	inside := 0
	for _, c := range cs {
		if c.context == "" || c.pos >= len(whole) {
			continue
		}
		inside++
		prefix := whole[:c.pos]
		_, errs, cont, pan := parseMode(prefix, true)
		if pan != "" || len(errs) > 0 || !cont {
			ctxClass := c.context
			fail("continuation-expected", ctxClass, fmt.Sprintf("prefix ending inside %s: %q -> panic=%q errors=%v continuation=%v", c.context, trunc(tailStr(prefix, 160), 200), pan, truncAll(errs), cont))
		}
		st.Probe("cut_inside_" + strings.SplitN(c.context, ":", 2)[0])
	}
	// (b') line by line through the prev+line accumulation of repl.Interactive
	{
		prev := ""
		var got []string
		for _, line := range strings.Split(whole, "\n") {
			l := prev + line
			d, errs, cont, pan := parseMode(l, true)
			if pan != "" || len(errs) > 0 {
				fail("line-by-line-accumulation", "error", fmt.Sprintf("accumulated input %q: panic=%q errors=%v", trunc(l, 200), pan, truncAll(errs)))
				break
			}
			if cont {
				prev = l + "\n"
				continue
			}
			prev = ""
			got = append(got, strings.TrimSuffix(strings.TrimPrefix(d, "(stmts ["), "])"))
		}
		joined := "(stmts [" + strings.Join(nonEmpty(got), " ") + "])"
		if o.Viol == nil && (prev != "" || joined != dFile) {
			fail("line-by-line-accumulation", "tree", fmt.Sprintf("feeding %q line by line gives a different statement list (pending=%q)", trunc(whole, 300), trunc(prev, 80)))
		}
	}
	// (c) chunked session
	cfg := sessCfgOf(h)
	ref := world.NewSession(cfg)
	st.Execs++
	rWhole := ref.Input(whole, nil)
	if rWhole.Class != "value" || rWhole.BudgetHit {
		// Is the script error-free statement by statement? Then failing as a whole is the violation;
		// otherwise the generator produced a bad script (after shrinking: a statement lost its definitions).
		single := world.NewSession(cfg)
		st.Execs++
		okAll := !rWhole.BudgetHit
		for _, sn := range stmts {
			if r := single.Input(sn, nil); r.Class != "value" {
				okAll = false
				break
			}
		}
		if okAll {
			fail("chunked-session", "whole-fails", fmt.Sprintf("every statement succeeds when fed one at a time, but the script in one go gives %s %v: %q", rWhole.Class, truncAll(rWhole.Errs), trunc(whole, 300)))
			st.Shape = "whole-fails"
			return o
		}
		st.Discarded = true
		st.Panic("script is not error-free as one input: " + rWhole.Class + fmt.Sprint(truncAll(rWhole.Errs)))
		st.Shape = "script-fails"
		o.Viol = nil
		return o
	}
	gWhole := saveTextNoLoopVars(ref)
	n := len(stmts)
	var masks []uint64
	if n <= 7 {
		for m := uint64(0); m < 1<<(n-1); m++ {
			masks = append(masks, m)
		}
	} else {
		sr := core.NewRng(uint64(h.C("splitseed")))
		for k := 0; k < 48; k++ {
			masks = append(masks, sr.Uint64()&((1<<(n-1))-1))
		}
		masks = append(masks, (1<<(n-1))-1)
	}
	fr := core.NewRng(uint64(h.C("splitseed")) + 1)
	lineCfg := cfg
	lineCfg.LineMode = true
	for _, m := range masks {
		s := world.NewSession(lineCfg)
		st.Execs++
		var out strings.Builder
		var chunk []string
		chunks := 0
		flush := func() bool {
			if len(chunk) == 0 {
				return true
			}
			chunks++
			r := s.Input(strings.Join(chunk, "\n"), nil)
			out.WriteString(r.Out)
			chunk = nil
			if r.Class != "value" {
				fail("chunked-session", "chunk-fails", fmt.Sprintf("split %b: chunk %d gives %s %v although the script is error-free in one go", m, chunks, r.Class, truncAll(r.Errs)))
				return false
			}
			if h.F("faults") && fr.Bool(.3) {
				tpl := core.Pick(fr, failTemplates)
				fr2 := s.Input(tpl.text(fr, nil), nil)
				if fr2.Class != "value" {
					st.Fault("failing_input_between_chunks")
				}
			}
			return true
		}
		ok := true
		for i, sn := range stmts {
			chunk = append(chunk, sn)
			if i == n-1 || m&(1<<uint(i)) != 0 {
				if ok = flush(); !ok {
					break
				}
			}
		}
		if !ok {
			break
		}
		if chunks >= 2 && inside > 0 {
			st.Nontrivial = true
		}
		if out.String() != rWhole.Out {
			fail("chunked-session", "output", fmt.Sprintf("split %b (%d chunks): program output %q, in one go %q", m, chunks, trunc(out.String(), 300), trunc(rWhole.Out, 300)))
			break
		}
		if g := saveTextNoLoopVars(s); g != gWhole {
			fail("chunked-session", "globals", fmt.Sprintf("split %b (%d chunks): final globals differ:\n%s\nvs in one go:\n%s", m, chunks, trunc(g, 500), trunc(gWhole, 500)))
			break
		}
		st.Ticks += s.W.Ticks
	}
	st.State(gWhole)
	st.Shape = shapeOf([]string{fmt.Sprint(n), fmt.Sprint(len(cs)), fmt.Sprint(inside), fmt.Sprint(len(masks)), dFile[:min(len(dFile), 4000)]})
	if st.Discarded {
		o.Viol = nil
	}
	return o
}

func nonEmpty(xs []string) []string {
	var out []string
	for _, x := range xs {
		if x != "" {
			out = append(out, x)
		}
	}
	return out
}

func tailStr(s string, n int) string {
	if len(s) > n {
		return "…" + s[len(s)-n:]
	}
	return s
}
