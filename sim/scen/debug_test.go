package scen

import (
	"fmt"
	"strings"
	"testing"

	"verifsim/core"
	"verifsim/gen"
	"verifsim/world"
)

func TestRejectReasons(t *testing.T) {
	counts := map[string]int{}
	for i := 0; i < 300; i++ {
		r := core.NewRng(uint64(i) + 1000)
		g := gen.New(r.Sub("g"), gen.SwarmFlags(r.Sub("f")))
		s := world.NewSession(world.SessCfg{})
		for k := 0; k < 8; k++ {
			saved := g.Clone()
			st := g.TopInput(1 + r.Intn(3))
			res := s.Input(strings.Join(st, "\n"), nil)
			if res.Class != "value" {
				msg := strings.Join(res.Errs, ";")
				if len(msg) > 90 {
					msg = msg[:90]
				}
				counts[res.Class+" "+msg]++
				if counts[res.Class+" "+msg] == 1 {
					fmt.Printf("--- %s\n%s\n", msg, strings.Join(st, "\n"))
				}
				g.Restore(saved)
				break
			}
		}
	}
	for k, v := range counts {
		fmt.Println(v, k)
	}
}
