package scen

import (
	"fmt"
	"strings"
	"time"

	"verifsim/core"
	"verifsim/gen"
)

// C05 — integer registers are unobservable (DESIGN 5.3).
type c05 struct{}

func init() { register(c05{}) }

func (c05) ID() string { return "C05" }

func (c05) Info() core.Info {
	return core.Info{
		Level: "exploration",
		Rule: "seeded swarm generation of multi-input session histories (functions with 0..12 parameters of mixed types, nested counted loops, loop variables shadowing " +
			"parameters/globals, closures, parameter mutation, every loop exit kind, long runs of top-level loops, deadline faults addressed by the k-th execution of a planted marker, " +
			"allocation refusal, integer variables as map keys and field names, catch(for ...) in the same environment, loop values alive past their loop) plus fixed agreeing histories (:= reuse of a parameter, operand orders of ==) and a deterministic sweep (parameter count x loop depth x exit kind); the same concrete history is executed with State.NoReg=false and true on the real code " +
			"and every input must give identical output/value/outcome class, and final globals must agree. distinct = distinct sequence of (tag, fault kind, outcome classes); " +
			"non-trivial = the history contains at least one counted loop or integer parameter (i.e. the register path is exercised).",
		Real:    commonReal,
		Stubbed: commonStubbed,
		Assumptions: []string{
			"programs never call type() or info (the property excludes introspection)",
			"faults are addressed logically (k-th marker execution), because tick counts legitimately differ between the two modes",
			"error wording is not compared",
		},
	}
}

func (c05) Budget(tier string) core.Budget {
	if tier == "thorough" {
		return core.Budget{Runs: 3000000, WallCap: 20 * time.Minute}
	}
	return core.Budget{Runs: 24000, WallCap: 45 * time.Second}
}

var exitKinds = []string{"normal", "break", "continue", "return", "error"}

// sweepHistory is the deterministic part: parameter count p (0..12) x loop depth d (0..10) x exit kind.
func sweepHistory(idx int) *core.History {
	p := idx % 13
	d := (idx / 13) % 11
	exit := exitKinds[(idx/(13*11))%len(exitKinds)]
	var params, args []string
	for i := 0; i < p; i++ {
		params = append(params, fmt.Sprintf("p%d", i))
		if i%4 == 3 {
			args = append(args, fmt.Sprintf("\"s%d\"", i))
		} else {
			args = append(args, fmt.Sprint(i+1))
		}
	}
	sum := "0"
	for i := 0; i < p; i++ {
		if i%4 != 3 {
			sum += fmt.Sprintf(" + p%d", i)
		}
	}
	var body strings.Builder
	body.WriteString("t := " + sum + "; ")
	for l := 0; l < d; l++ {
		fmt.Fprintf(&body, "for lv%d = 2 { ", l)
	}
	acc := "t = t + 1"
	for l := 0; l < d; l++ {
		acc += fmt.Sprintf(" + lv%d", l)
	}
	body.WriteString(acc)
	if d > 0 {
		switch exit {
		case "break":
			body.WriteString("; if t > 3 { break }")
		case "continue":
			body.WriteString("; if t > 3 { continue }; t = t + 100")
		case "return":
			body.WriteString("; if t > 5 { return t }")
		case "error":
			body.WriteString("; if t > 5 { error(\"exit\", t) }")
		}
	}
	for l := 0; l < d; l++ {
		body.WriteString(" }")
	}
	body.WriteString("; t")
	def := fmt.Sprintf("func sw(%s) { %s }", strings.Join(params, ", "), body.String())
	h := &core.History{Cfg: map[string]int64{"maxdepth": 2000, "sweep": int64(idx) + 1}, Flags: map[string]bool{}}
	h.Events = []core.Event{
		{Ev: "input", Tag: "sweep", Text: def},
		{Ev: "input", Tag: "sweep", Text: fmt.Sprintf("println(sw(%s))", strings.Join(args, ", "))},
		{Ev: "input", Tag: "sweep", Text: fmt.Sprintf("println(sw(%s))", strings.Join(args, ", "))},
	}
	// the same loop nest at top level, several times (slot leaks only show in later inputs)
	var top strings.Builder
	top.WriteString("tt = 0; ")
	for l := 0; l < d; l++ {
		fmt.Fprintf(&top, "for lv%d = 2 { ", 100+l)
	}
	top.WriteString("tt = tt + 1")
	if d > 0 {
		switch exit {
		case "break", "return":
			top.WriteString("; if tt > 2 { break }")
		case "continue":
			top.WriteString("; if tt > 2 { continue }")
		case "error":
			top.WriteString("; if tt > 2 { error(\"top\") }")
		}
	}
	for l := 0; l < d; l++ {
		top.WriteString(" }")
	}
	top.WriteString("; println(tt)")
	for k := 0; k < 10; k++ {
		h.Events = append(h.Events, core.Event{Ev: "input", Tag: "toploop", Text: top.String()})
	}
	h.Strs = map[string]string{"sweep": fmt.Sprintf("params=%d depth=%d exit=%s", p, d, exit)}
	return h
}

const c05SweepSize = 13 * 11 * 5

// c05Probes are fixed histories re-observing the recorded (not repaired) findings of this property;
// each has a fixed signature "C05|probe:<name>" listed in known_findings.txt.
var c05Probes = []struct {
	name   string
	inputs []string
}{
	{"loopvar-visible-after-loop", []string{`for i = 3 { }`, `println(i)`}},
	{"loopvar-overwrites-outer-variable", []string{`i = 100`, `for i = 3 { }`, `println(i)`}},
	{"loopvar-overwrites-parameter", []string{`func f(x) { for x = 3 { }; x }`, `println(f(10))`}},
	{"callee-loop-clobbers-caller-loopvar", []string{`func f() { for i = 2 { } }`, `for i = 3 { f(); println(i) }`}},
	{"function-literal-in-counted-loop", []string{`for i = 2 { h = x => x + 1; println(h(i)) }`}},
	{"loopvar-modified-in-loop", []string{`for i = 3 { i++; println(i) }`}},
	{"non-integer-assigned-to-integer-parameter", []string{`func f(n) { n = 1.5; n }`, `println(f(1))`}},
	{"integer-parameter-invisible-to-eval", []string{`func f(n) { eval("n") }`, `println(f(3))`}},
	{"parameter-named-like-its-function", []string{`func f(f) { f + 1 }`, `println(f(3))`}},
}

func probeHistory(name string, inputs []string) *core.History {
	h := &core.History{Cfg: map[string]int64{"maxdepth": 2000}, Flags: map[string]bool{}, Strs: map[string]string{"probe": name}}
	for _, in := range inputs {
		h.Events = append(h.Events, core.Event{Ev: "input", Tag: "probe", Text: in})
	}
	return h
}

// c05Fixed are fixed histories that agree between the two modes on the unchanged tree (unlike the probes above):
// special forms around the register rewrite that the random grammar does not produce.
var c05Fixed = [][]string{
	{`func sum(n) { t = 0; for n := n { t = t + n }; t }`, `println(sum(4))`, `println(sum(0))`},
	{`func cnt(n) { t = 0; for n := 2:n { t = t + n }; t }`, `println(cnt(5))`},
	{`func idx(a, x) { for i = len(a) { if a[i] == x { return i } }; -1 }`, `println(idx([5, 6, 7], 6), idx([5, 6, 7], 9))`},
	{`func eqs(x, y) { [x == y, y == x, 3 == x, x == 3, x != y, 2 != y] }`, `println(eqs(3, 3), eqs(3, 2))`},
	{`func todds(n) { out = []; for k = n { if k % 2 == 1 { k = k * 3 }; out = out + k }; out }`, `println(todds(6))`},
	{`func isq(n) { for i = n { if i * i > n { break }; i } }`, `println(isq(10), isq(17), isq(2))`, `func xcf() { for i = 5 { if i > 2 { continue }; i } }`, `println(xcf())`},
	{`func alr(a) { a + (a = 5) }`, `println(alr(3))`, `func alr2(a, b) { [a * (a = b), a - (a = a + 1) - a] }`, `println(alr2(3, 4))`},
	{`println((() => { (for i = 5 { if i == 3 { return i } }) + (for j = 2 { j }) })())`},
	{`func rop(n) { ["#" * n, [7] * n, 10 - n, 2 << n, 100 / n, 100 % n, 1.5 * n, 1.5 + n, 7 & n, 7 | n, 7 ^ n, 2 * n, "ab" + str(n)] }`, `println(rop(3))`,
		`func ropl(m) { t = []; for i = 1:4 { t = t + ["#" * i, [7] * i, 10 - i, 2 << i, 100 / i, 100 % i, 1.5 * i, 7 & i] }; t }`, `println(ropl(0))`},
	{`func cmp3(x) { t = 0; for i = 4 { if 2 == i { t = t + 10 }; if i == x { t = t + 1 }; if x == i { t = t + 100 } }; t }`, `println(cmp3(2), cmp3(7))`},
}

func (c05) Generate(r *core.Rng, run int, tier string) *core.History {
	if run < len(c05Probes) {
		return probeHistory(c05Probes[run].name, c05Probes[run].inputs)
	}
	run -= len(c05Probes)
	if run < len(c05Fixed) {
		h := probeHistory("", c05Fixed[run])
		delete(h.Strs, "probe")
		return h
	}
	run -= len(c05Fixed)
	nSweep := 120
	if tier == "thorough" {
		nSweep = c05SweepSize
	}
	if run < nSweep {
		idx := run
		if tier != "thorough" {
			idx = int(r.Sub("sweep").Intn(c05SweepSize))
		}
		return sweepHistory(idx)
	}
	flags := gen.SwarmFlags(r.Sub("flags"))
	flags.Marks = true
	flags.Shadow = r.Bool(.6)
	flags.ManyParams = r.Bool(.4)
	flags.DeepLoops = r.Bool(.4)
	flags.IncDec = true
	kr := r.Sub("knobs")
	h := &core.History{Cfg: map[string]int64{}, Flags: map[string]bool{}}
	h.Flags["nocache"] = kr.Bool(.5)
	if !h.Flags["nocache"] {
		flags.Redefine, flags.SameTextClosures = false, false
	}
	h.Cfg["maxdepth"] = 3000
	h.Cfg["envseed"] = int64(kr.Uint64() >> 1)
	ref := sessCfgOf(h)
	ref.NoReg = true // reference configuration: registers off
	g := gen.New(r.Sub("gen"), flags)
	bg := newBaseGen(g, ref)
	bg.AddFixed([]string{"func div9(a9, b9) { a9 / b9 }"})
	n := 4 + kr.Intn(10)
	fr := r.Sub("faults")
	for i := 0; i < n; i++ {
		if kr.Bool(.25) {
			// a run of top-level loops with assorted exits (register slots of the session environment)
			k := 1 + kr.Intn(3)
			var st []string
			for j := 0; j < k; j++ {
				st = append(st, topLoop(kr))
			}
			bg.AddAny(st)
			continue
		}
		bg.Add(1 + kr.Intn(4))
	}
	if len(bg.Inputs) == 0 {
		return nil
	}
	for _, in := range bg.Inputs {
		ev := core.Event{Ev: "input", Tag: "base", Stmts: in}
		src := strings.Join(in, "\n")
		if strings.Contains(src, "sim_mark()") && fr.Bool(.15) {
			ev.Fault = &core.Fault{Kind: "mark", At: int64(1 + fr.Intn(6))}
			ev.Tag = "fail"
		}
		h.Events = append(h.Events, ev)
	}
	h.Cfg["rejects"] = int64(bg.Rejects)
	return h
}

// topLoop: a top-level counted loop leaving by a PRNG-chosen exit.
func topLoop(r *core.Rng) string {
	v := fmt.Sprintf("lv%d", 500+r.Intn(400))
	n := 2 + r.Intn(4)
	switch r.Intn(7) {
	case 0:
		return fmt.Sprintf("for %s = %d { println(\"L\", %s) }", v, n, v)
	case 1:
		return fmt.Sprintf("for %s = %d { if %s == 1 { break }; println(\"L\", %s) }", v, n, v, v)
	case 2:
		return fmt.Sprintf("for %s = %d { if %s == 0 { continue }; println(\"L\", %s) }", v, n, v, v)
	case 3:
		return fmt.Sprintf("for %s = 1:%d { for lv499 = 2 { if lv499 == 1 { break }; println(%s, lv499) } }", v, n+1, v)
	case 4:
		return fmt.Sprintf("catch((() => { for %s = %d { if %s == 1 { error(\"x\") } } })())", v, n, v)
	case 5:
		// a Go runtime panic unwinding out of a callee through the loop (both modes must report the same failure)
		return fmt.Sprintf("for %s = %d { println(div9(6, 2 - %s)) }", v, n+1, v)
	default:
		return fmt.Sprintf("println(for %s = %d { %s })", v, n, v)
	}
}

var c05Vocab = []struct{ name, needle string }{
	{"for", "for "}, {"break", "break"}, {"continue", "continue"}, {"return", "return"}, {"error", "error("},
	{"incr", "++"}, {"decr", "--"}, {"lambda", "=>"}, {"func", "func"}, {"mark", "sim_mark"}, {"catch", "catch("},
}

func (c05) Execute(h *core.History) *core.Outcome {
	o := &core.Outcome{}
	o.Stats.Rejects = int(h.C("rejects"))
	ref := sessCfgOf(h)
	ref.NoReg = true
	alt := ref
	alt.NoReg = false
	runPair(h, ref, alt, pairOpts{cmpFaulted: true, sigOf: func(h *core.History, i int, asp string) string {
		if p := h.Strs["probe"]; p != "" {
			return "C05|probe:" + p
		}
		return "C05|" + featureSig(h, c05Vocab) + "|" + asp
	}}, o)
	for i := range h.Events {
		s := h.Events[i].Source()
		if strings.Contains(s, "for ") || strings.Contains(s, "func") || strings.Contains(s, "=>") {
			o.Stats.Nontrivial = true
		}
	}
	if h.C("sweep") > 0 {
		o.Stats.Probe("sweep_cases")
	}
	return o
}
