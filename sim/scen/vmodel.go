package scen

import (
	"sort"
	"strconv"
	"strings"

	"verifsim/core"
)

// val is the harness-side value tree of the container scenarios (C06, C19): ints, arrays, maps with
// string keys. Copy-on-bind (deep copy) is the documented value semantics.
type val struct {
	kind string // int | arr | map | str | float | bool | nil
	i    int64
	s    string
	arr  []*val
	m    map[string]*val
	grp  int // maps: identity of the storage this value may legitimately share on the unchanged tree (0 = none)
}

func vint(i int64) *val { return &val{kind: "int", i: i} }

func (v *val) clone() *val {
	c := &val{kind: v.kind, i: v.i, s: v.s, grp: v.grp}
	for _, e := range v.arr {
		c.arr = append(c.arr, e.clone())
	}
	if v.m != nil {
		c.m = map[string]*val{}
		for k, e := range v.m {
			c.m[k] = e.clone()
		}
	}
	return c
}

func (v *val) keys() []string {
	ks := make([]string, 0, len(v.m))
	for k := range v.m {
		ks = append(ks, k)
	}
	sort.Strings(ks)
	return ks
}

// canon renders the model value the way world.Canon renders the real one.
func (v *val) canon() string {
	switch v.kind {
	case "int":
		return "i:" + strconv.FormatInt(v.i, 10)
	case "str":
		return "s:" + strconv.Quote(v.s)
	case "bool":
		if v.i != 0 {
			return "b:true"
		}
		return "b:false"
	case "nil":
		return "nil"
	case "float":
		return v.s // pre-rendered canon
	case "arr":
		parts := make([]string, len(v.arr))
		for i, e := range v.arr {
			parts[i] = e.canon()
		}
		return "[" + strings.Join(parts, ",") + "]"
	default:
		ks := v.keys()
		parts := make([]string, len(ks))
		for i, k := range ks {
			parts[i] = "s:" + strconv.Quote(k) + "=>" + v.m[k].canon()
		}
		return "{" + strings.Join(parts, ",") + "}"
	}
}

// src renders the model value as grol source (a fresh literal, sharing nothing).
func (v *val) src() string {
	switch v.kind {
	case "int":
		if v.i < 0 {
			return "(" + strconv.FormatInt(v.i, 10) + ")"
		}
		return strconv.FormatInt(v.i, 10)
	case "str":
		return strconv.Quote(v.s)
	case "bool":
		if v.i != 0 {
			return "true"
		}
		return "false"
	case "nil":
		return "nil"
	case "float":
		return v.s
	case "arr":
		parts := make([]string, len(v.arr))
		for i, e := range v.arr {
			parts[i] = e.src()
		}
		return "[" + strings.Join(parts, ", ") + "]"
	default:
		ks := v.keys()
		parts := make([]string, len(ks))
		for i, k := range ks {
			parts[i] = strconv.Quote(k) + ": " + v.m[k].src()
		}
		return "{" + strings.Join(parts, ", ") + "}"
	}
}

func (v *val) size() int {
	if v.kind == "arr" {
		return len(v.arr)
	}
	return len(v.m)
}

func (v *val) sizeClass() string {
	switch v.kind {
	case "arr":
		if len(v.arr) > 8 {
			return "large"
		}
		return "small"
	case "map":
		if len(v.m) > 4 {
			return "large"
		}
		return "small"
	}
	return "scalar"
}

var knownSigCache map[string]bool

// knownSig tells whether a signature is listed as a known finding (read-only file).
func knownSig(prop, sig string) bool {
	if knownSigCache == nil {
		knownSigCache = map[string]bool{}
		for _, f := range core.LoadFindings() {
			if f.Status == "known" {
				knownSigCache[f.Prop+"\x00"+f.Sig] = true
			}
		}
	}
	return knownSigCache[prop+"\x00"+sig]
}

// hasGroup tells whether v is, or contains, a map of storage group g.
func (v *val) hasGroup(g int) bool {
	if v == nil || g == 0 {
		return false
	}
	if v.kind == "map" && v.grp == g {
		return true
	}
	for _, e := range v.arr {
		if e.hasGroup(g) {
			return true
		}
	}
	for _, e := range v.m {
		if e.hasGroup(g) {
			return true
		}
	}
	return false
}
