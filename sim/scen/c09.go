package scen

import (
	"bytes"
	"context"
	"encoding/json"
	"fmt"
	"grol.io/grol/extensions"
	"os"
	"os/exec"
	"runtime/debug"
	"strconv"
	"strings"
	"sync"
	"syscall"
	"time"

	"grol.io/grol/lexer"
	"grol.io/grol/repl"
	"grol.io/grol/token"
	"verifsim/core"
	"verifsim/world"
)

// C09 — execution is bounded: depth, time and memory guards always hold (DESIGN 5.5).
type c09 struct{}

func init() {
	register(c09{})
	workers["c09"] = c09Worker
	workers["c09d"] = c09dWorker
	workers["c09a"] = c09aWorker
	workers["c09r"] = c09rWorker
}

// c09aWorker: worker c09a <historyfile>: runs the in-process part (deadline sweep or depth scenario) of one history
// in a child and prints its Outcome. The parent can then survive (and report) an evaluation that never stops
// polling-free or a fatal stack overflow.
// c09Heartbeat is called by the sweeps after every evaluation (set in the child process only).
var c09Heartbeat = func() {}

// c09Activity collects a child's stderr and remembers when it last wrote something.
type c09Activity struct {
	mu   sync.Mutex
	buf  bytes.Buffer
	last time.Time
}

func (a *c09Activity) Write(p []byte) (int, error) {
	a.mu.Lock()
	defer a.mu.Unlock()
	a.last = time.Now()
	if a.buf.Len() < 1<<20 {
		a.buf.Write(p)
	}
	return len(p), nil
}

func (a *c09Activity) idle() time.Duration {
	a.mu.Lock()
	defer a.mu.Unlock()
	return time.Since(a.last)
}

func (a *c09Activity) String() string {
	a.mu.Lock()
	defer a.mu.Unlock()
	return a.buf.String()
}

func c09aWorker(args []string) int {
	h, err := core.LoadHistory(args[0])
	if err != nil {
		return 2
	}
	c09Heartbeat = func() { _, _ = os.Stderr.WriteString("#\n") }
	var o *core.Outcome
	if h.Strs["sub"] == "deadline" {
		o = c09{}.execDeadline(h)
	} else {
		o = c09{}.execDepth(h)
	}
	_ = json.NewEncoder(os.Stdout).Encode(o)
	return 0
}

// inChild runs execDeadline / execDepth of h in a worker process under a real-time watchdog.
func (c09) inChild(h *core.History) *core.Outcome {
	base := os.Getenv("VERIF_TMP")
	if base == "" {
		base = os.TempDir()
	}
	f, err := os.CreateTemp(base, "c09-*.json")
	if err != nil {
		panic(err)
	}
	defer os.Remove(f.Name())
	b, _ := json.Marshal(h)
	_, _ = f.Write(b)
	f.Close()
	self, _ := os.Executable()
	// Watchdog on INACTIVITY, not on total time: the child writes a heartbeat to stderr after every evaluation of
	// its sweep, and is killed when it has been silent for 150 s (one evaluation takes milliseconds when the deadline
	// is honoured). A slow machine or a long sweep can therefore not look like a hang.
	ctx, cancel := context.WithCancel(context.Background())
	defer cancel()
	cmd := exec.CommandContext(ctx, self, "worker", "c09a", f.Name())
	var ob bytes.Buffer
	eb := &c09Activity{last: time.Now()}
	cmd.Stdout, cmd.Stderr = &ob, eb
	hung := false
	done := make(chan struct{})
	go func() {
		t := time.NewTicker(time.Second)
		defer t.Stop()
		for {
			select {
			case <-done:
				return
			case <-t.C:
				if eb.idle() > 150*time.Second {
					hung = true
					cancel()
					return
				}
			}
		}
	}()
	err = cmd.Run()
	close(done)
	key := h.Strs["sub"] + "|" + h.Strs["key"]
	if hung {
		return &core.Outcome{Viol: &core.Violation{Oracle: "returns-after-deadline", Sig: "C09|" + key + "|evaluation-does-not-stop",
			Detail: fmt.Sprintf("sub-scenario %s, program %q: one evaluation did not come back (worker killed after 150 s without finishing a single evaluation of its sweep; with a virtual deadline armed it must return after a bounded number of context polls)", h.Strs["sub"], h.Strs["key"])},
			Stats: core.Stats{Shape: shapeOf([]string{key, "hung"}), Children: 1, Nontrivial: true}}
	}
	if err != nil {
		msg := eb.String()
		kind := "exit"
		if strings.Contains(msg, "stack overflow") {
			kind = "stack-overflow"
		} else if strings.Contains(msg, "out of memory") {
			kind = "out-of-memory"
		}
		return &core.Outcome{Viol: &core.Violation{Oracle: "process-survives", Sig: "C09|" + key + "|process-dies|" + kind,
			Detail: fmt.Sprintf("sub-scenario %s, program %q: the interpreter process died: %v %s", h.Strs["sub"], h.Strs["key"], err, fatalLines(msg))},
			Stats: core.Stats{Shape: shapeOf([]string{key, "died"}), Children: 1, Nontrivial: true}}
	}
	var o core.Outcome
	if json.Unmarshal(ob.Bytes(), &o) != nil {
		return &core.Outcome{Stats: core.Stats{Discarded: true, Shape: "bad-child-output", Panics: []string{trunc(ob.String(), 100)}}}
	}
	o.Stats.Children++
	return &o
}

func (c09) ID() string { return "C09" }

func (c09) Info() core.Info {
	return core.Info{
		Level: "exploration",
		Rule: "three sub-scenarios. (a) deadline at every instant: for programs built from non-terminating loops of each for form, unbounded and mutual recursion, nested closures, loops around one heavy operator, loops calling sleep, the virtual deadline tick k is SWEPT over every k in 1..min(T, cap) (T = ticks of the program, cap for non-terminating ones); " +
			"EvalOne must return, the number of context polls after firing must be <= N*(D+2) (N = tokens of the input and session function bodies, D = call depth bound), the outcome must be an error/recovered panic (or a value if the work left was within the bound), virtual sleep must return at min(now+d, deadline), and the session must evaluate a probe afterwards. " +
			"(b) depth: MaxDepth drawn from 10..3000, recursion (direct, mutual, through closures, through eval(), deeply nested source text) must end in the recoverable max-depth failure or a value, and a recursion calibrated to MaxDepth-eps must succeed right afterwards (depth counter reset). " +
			"(c) process survival: child worker processes (address space limited with RLIMIT_AS, GOMEMLIMIT set) evaluate programs with repetition/range/concatenation/doubling operators whose operands cross 2^31 and 2^63 through repl.EvalStringWithOption; the child must exit normally reporting a result or the memory/depth guard; death by signal, 'fatal error', or exceeding the address-space net is a violation. " +
			"(d) no-poll family in watchdog children: unjson/eval/macro bodies and run()/exec() followed by an endless loop under a virtual deadline. (e) realtimer: the real timer of SetContext, MaxDuration 150 ms under a host context without / with later / with earlier deadline, verdict: back within 8 s. " +
			"distinct = distinct (sub-scenario, program, outcome class, deadline bucket); non-trivial = a deadline fired strictly inside the evaluation, a depth guard fired, or an allocation was refused.",
		Real:        []string{"evaluator context polling (evalInternal), all loop forms, applyFunction, eval.State.Eval depth guard, repl.EvalOne recover/Reset", "object.MustBeOk/SizeOk/MakeObjectSlice guards with the simulator's free-memory answer (in-process) or the real runtime reading under GOMEMLIMIT (children)", "repl.EvalStringWithOption in child processes under RLIMIT_AS"},
		Stubbed:     append([]string{"real wall-clock latency of cancellation is not decided (no real clock by construction): the deadline is a virtual tick"}, commonStubbed...),
		Assumptions: []string{"the constant factor of the property is stated once: children run with GOMEMLIMIT=64MiB and RLIMIT_AS=4GiB (64x)", "peak RSS is reported, not judged (GC timing is not under the simulator's control)"},
	}
}

func (c09) Budget(tier string) core.Budget {
	if tier == "thorough" {
		return core.Budget{Runs: 3600, WallCap: 25 * time.Minute}
	}
	return core.Budget{Runs: 204, WallCap: 80 * time.Second}
}

type c09prog struct {
	key     string
	prelude string
	text    string
	depth   int // D: call depth bound (0: use MaxDepth)
	endless bool
}

var c09Deadline = []c09prog{
	{"for-true-empty", "", `for true { }`, 1, true},
	{"for-true-counter", "x = 0", `for true { x = x + 1 }`, 1, true},
	{"for-cond-compare", "x = 0", `for x >= 0 { x++ }`, 1, true},
	{"for-n-huge", "", `for 1000000000 { }`, 1, true},
	{"for-i-n-huge", "t = 0", `for i = 1000000000 { t = t + i }`, 1, true},
	{"for-range-huge", "", `for i = 5:2000000000 { i }`, 1, true},
	{"for-list", "l9 = 0:3000", `for e = l9 { e + 1 }`, 1, false},
	{"for-nested", "", `for i = 100000 { for j = 100000 { i + j } }`, 1, true},
	{"for-in-func", `func spin(n) { t := 0; for i = n { t = t + i }; t }`, `spin(1000000000)`, 3, true},
	{"recursion-self", "", `(x => self(x + 1))(0)`, 0, true},
	{"recursion-mutual", "func ev(n) { od(n + 1) }\nfunc od(n) { ev(n + 1) }", `ev(0)`, 0, true},
	{"recursion-map-frames", `func mf(n) { {"a": n, "b": mf(n + 1), "c": n} }`, `mf(0)`, 0, true},
	{"closures-nested", `mkc = n => (x => (y => if y > 0 { self(y - 1) } else { x + n }))`, `for true { mkc(1)(2)(30) }`, 40, true},
	{"heavy-operator-loop", "", `for true { len("abcdefgh" * 200) }`, 1, true},
	{"array-op-loop", "", `for true { len([1, 2, 3] + [4]) + len(0:100) }`, 1, true},
	{"sleep-loop", "", `for true { sleep(0.25) }`, 1, true},
	{"sleep-long", "", `sleep(100000.0)`, 1, false},
	{"print-loop", "", `for i = 1000000 { print(i) }`, 1, true},
	{"catch-loop", "", `for true { catch(error("e")) }`, 1, true},
	{"recursion-catch-per-frame", `func cf(n) { r = catch(cf(n + 1)); r.err }`, `cf(0)`, 0, true},
	{"catch-swallows-in-loop", `func lp(n) { for i = n { catch(lp2(i)) }; 1 }` + "\n" + `func lp2(n) { t := 0; for j = 50 { t = t + j }; t }`, `for true { lp(20) }`, 3, true},
	{"finite-small", "", `t = 0; for i = 30 { t = t + i * i }; println(t)`, 1, false},
	{"finite-recursive", `func fib(n) { if n < 2 { return n }; fib(n - 1) + fib(n - 2) }`, `fib(11)`, 14, false},
	{"range-alloc-loop", "", `for true { 0:50000 }`, 1, true},
}

var c09Depth = []c09prog{
	{"self", "", `(x => self(x + 1))(0)`, 0, true},
	{"named", "func down(n) { down(n + 1) }", `down(0)`, 0, true},
	{"mutual", "func ev(n) { od(n + 1) }\nfunc od(n) { ev(n + 1) }", `ev(0)`, 0, true},
	{"closure", `mkr = () => (n => self(n + 1))`, `mkr()(0)`, 0, true},
	{"through-eval", `func re(n) { eval("re(" + str(n + 1) + ")") }`, `re(0)`, 0, true},
	{"eval-of-itself", `sev9 = "eval(sev9)"`, `eval(sev9)`, 0, true}, // recursion without any grol function call
	{"in-loop", "func dl(n) { for i = 2 { dl(n + 1) } }", `dl(0)`, 0, true},
	{"in-map-literal", `func dm(n) { {"k": dm(n + 1)} }`, `dm(0)`, 0, true},
	{"nested-parens", "", "", 0, false},
	{"nested-arrays", "", "", 0, false},
	{"nested-prefix", "", "", 0, false},
}

var c09Mem = []string{
	`len("abcdefgh" * %d)`,
	`len([1, 2, 3] * %d)`,
	`len(0:%d)`,
	`len((0:1000) * %d)`,
	`s = "x"; for %d { s = s + s }; len(s)`,
	`a = [1]; for %d { a = a + a }; len(a)`,
	`m = {}; for i = %d { m[i] = i }; len(m)`,
	`len(join([1, 2, 3] * %d))`,
	`len(split("a," * %d, ","))`,
	`len(runes("ab" * %d))`,
	`(x => self(x + 1))(%d)`,
	`len(str("q" * %d))`,
	`a = (0:200) * %d; len(a + a)`,
	`mrec = macro(x) { func mf(n) { mf(n + 1) }; mf(%d) }` + "\n" + `mrec(1)`,
	`func ff(n) { if true { if true { if true { len([ff(n + 1)]) } } } }` + "\n" + `ff(%d)`,
	`bs9 = "x" * 4000000; len(bs9 * %d)`,
	`ba9 = [7] * 400000; len(ba9 * %d)`,
	`cyc = [1, 2, 3, 4, 5, 6, 7, 8, 9, 10 + %d]; cyc[0] = cyc; len(str(cyc))`,
	`cyc = {1: 1, 2: 2, 3: 3, 4: 4, 5: 5, 6: 6 + %d}; cyc[1] = cyc; len(str(cyc))`,
	`len(join(["ab"] * 200000, "x" * %d))`,        // the separator, not the elements, makes the result large
	`len(join(["ab"] * %d, "0123456789" * 1000))`, // ... and many elements with a 10 KB separator
} // keep the length odd: memory runs are those with run%3 == 2 and run%12 != 11

// bytes needed per unit of the reported length, for templates whose result is the size of what was built
var c09Unit = map[string]int64{
	`len("abcdefgh" * `: 1, `len([1, 2, 3] * `: 16, `len(0:`: 16, `len((0:1000) * `: 16, `len(join([1, 2, 3] * `: 1,
	`len(split("a," * `: 16, `len(runes("ab" * `: 16, `len(str("q" * `: 1,
	`bs9 = "x" * 4000000; len(bs9 * `: 1, `ba9 = [7] * 400000; len(ba9 * `: 16,
	`len(join(["ab"] * 200000, "x" * `: 1, `len(join(["ab"] * `: 1,
}

var c09Operands = []int64{3_000_000, 6_000_000, 20_000_000, 0, 1, 7, 40, 62, 63, 64, 1000, 70000, 1 << 20, 1 << 24, 1<<31 - 1, 1 << 31, 1<<31 + 1, 1 << 32, 1 << 40, 1 << 62, 1<<62 + 1, 1<<63 - 1, 3074457345618258603, 6148914691236517206}

func (c09) Generate(r *core.Rng, run int, tier string) *core.History {
	h := &core.History{Cfg: map[string]int64{}, Flags: map[string]bool{}, Strs: map[string]string{}}
	if run%48 == 5 {
		// the REAL timer of SetContext (everything else runs on the virtual clock): MaxDuration against a host
		// context that is unlimited, expires later, or expires earlier
		h.Strs["sub"] = "realtimer"
		h.Strs["key"] = []string{"parent-later", "background", "parent-earlier"}[(run/48)%3]
		h.Events = []core.Event{{Ev: "program", Text: []string{`for true { }`, `unjson("for true { }")`, `x = 0; for true { x = x + 1 }`, `eval("for true { }")`, `for true { for i = 1000 { i } }`}[(run/48)%5]}}
		return h
	}
	if run%12 == 11 {
		p := c09NoPoll[(run/12)%len(c09NoPoll)]
		h.Strs["sub"], h.Strs["key"] = "nopoll", p.key
		h.Cfg["maxdepth"] = 1000
		h.Cfg["fireat"] = int64(1 + r.Intn(200))
		if p.key == "shared-subarray-compare" {
			h.Cfg["fireat"] = int64(400 + r.Intn(200)) // after the value is built (about 250 ticks): inside the comparison
		}
		h.Events = []core.Event{{Ev: "prelude", Text: p.prelude}, {Ev: "program", Text: p.text, Key: p.key}}
		return h
	}
	switch run % 3 {
	case 0:
		p := c09Deadline[(run/3)%len(c09Deadline)]
		h.Strs["sub"], h.Strs["key"] = "deadline", p.key
		h.Cfg["maxdepth"] = int64(core.Pick(r, []int{60, 200, 1000}))
		h.Flags["noreg"], h.Flags["nocache"] = r.Bool(.3), r.Bool(.5)
		cap := 400
		if tier == "thorough" {
			cap = 4000
		}
		h.Cfg["cap"] = int64(cap)
		endless := int64(0)
		if p.endless && p.depth > 0 {
			endless = 1 // a loop that cannot end by itself (the recursions end in the depth guard)
		}
		h.Events = []core.Event{{Ev: "prelude", Text: p.prelude}, {Ev: "program", Text: p.text, N: int64(p.depth), M: endless, Key: p.key}}
	case 1:
		p := c09Depth[(run/3)%len(c09Depth)]
		m := 10 + r.Intn(2990)
		if r.Bool(.4) {
			m = 10 + r.Intn(60)
		}
		h.Strs["sub"], h.Strs["key"] = "depth", p.key
		h.Cfg["maxdepth"] = int64(m)
		h.Flags["noreg"], h.Flags["nocache"] = r.Bool(.3), r.Bool(.5)
		text := p.text
		n := m + r.Intn(2*m+10) - m/2
		switch p.key {
		case "nested-parens":
			text = strings.Repeat("(", n) + "1" + strings.Repeat(")", n)
		case "nested-arrays":
			text = strings.Repeat("[", n) + "1" + strings.Repeat("]", n)
		case "nested-prefix":
			text = strings.Repeat("-(", n) + "1" + strings.Repeat(")", n)
		}
		h.Events = []core.Event{{Ev: "prelude", Text: p.prelude}, {Ev: "program", Text: text, Key: p.key}}
	default:
		tpl := c09Mem[(run/3)%len(c09Mem)]
		n := core.Pick(r, c09Operands)
		if strings.Contains(tpl, "for %d") && !strings.Contains(tpl, "m[i]") {
			n = int64(core.Pick(r, []int{1, 10, 24, 30, 40, 62, 70})) // doubling loops: 2^n
		}
		if r.Bool(.4) {
			// counts whose product with the operand's length wraps around 2^64 to a small non-negative number
			switch {
			case strings.Contains(tpl, "[1, 2, 3] * %d"):
				n = 6148914691236517206 // x3 = 2^64 + 2
			case strings.Contains(tpl, "(0:1000) * %d"):
				n = 18446744073709552 // x1000 = 2^64 + 384
			case strings.Contains(tpl, "(0:200) * %d"):
				n = 92233720368547759 // x200 = 2^64 + 184
			case strings.Contains(tpl, `"abcdefgh" * %d`):
				n = 2305843009213693952 // x8 = 2^64
			}
		}
		if strings.HasPrefix(tpl, "bs9 = ") || strings.HasPrefix(tpl, "ba9 = ") {
			n = int64(core.Pick(r, []int{2, 9, 12, 15, 16, 40, 100})) // a LARGE operand repeated a small number of times
		}
		if strings.Contains(tpl, `len(join(["ab"] * `) {
			// operands for which the elements and the separator are each small and only their product is large
			n = int64(core.Pick(r, []int{1000, 20000, 70000, 100000, 400000, 2000000}))
		}
		if strings.Contains(tpl, "m[i]") {
			n = int64(core.Pick(r, []int{10, 1000, 200000}))
		}
		h.Strs["sub"], h.Strs["key"] = "memory", strings.SplitN(tpl, "%", 2)[0]
		if strings.HasPrefix(tpl, "func ff(") {
			h.Strs["key"] = "fat-frames-recursion"
			n = 0
			if run/3 >= len(c09Mem) {
				h.Cfg["maxdepth"] = 1000 // the default-depth case (slow: it dies of stack overflow) once per batch
			} else {
				h.Cfg["maxdepth"] = 0
			}
		}
		if tier != "thorough" && h.Cfg["maxdepth"] == 150000 {
			h.Cfg["maxdepth"] = 20000 // deep default-limit recursions take seconds each: thorough tier only
		}
		if strings.HasPrefix(tpl, "cyc = ") {
			// a large array assigned into itself (in-place mutation, see C06) is a cyclic value: printing it recurses for ever
			h.Strs["key"] = "cyclic-container-print"
			n = 0
		}
		if strings.HasPrefix(tpl, "mrec = macro") {
			h.Strs["key"] = "recursion-in-macro-body"
		}
		h.Cfg["maxdepth"] = int64(core.Pick(r, []int{0, 1000, 150000}))
		h.Flags["simmem"] = r.Bool(.5) // deterministic budget through H3 vs the real runtime reading
		if strings.HasPrefix(tpl, "bs9 = ") || strings.HasPrefix(tpl, "ba9 = ") {
			h.Flags["simmem"] = true // the verdict needs the exact budget: 4 MB x n against 32 MiB
		}
		h.Events = []core.Event{{Ev: "program", Text: fmt.Sprintf(tpl, n), N: n}}
	}
	return h
}

func tokenCount(texts ...string) int {
	n := 0
	for _, t := range texts {
		l := lexer.New(t)
		for i := 0; i < 1000000; i++ {
			if l.NextToken().Type() == token.EOF {
				break
			}
			n++
		}
	}
	return n
}

func (c c09) Execute(h *core.History) *core.Outcome {
	switch h.Strs["sub"] {
	case "nopoll":
		return c.execNoPoll(h)
	case "realtimer":
		return c.execRealTimer(h)
	case "deadline", "depth":
		return c.inChild(h)
	default:
		return c.execMemory(h)
	}
}

func (c09) execDeadline(h *core.History) *core.Outcome {
	o := &core.Outcome{}
	st := &o.Stats
	cfg := sessCfgOf(h)
	cfg.Budget = 1 << 40 // the deadline under test is the only limit
	var prelude, prog string
	depth := 1
	for i := range h.Events {
		if h.Events[i].Ev == "prelude" {
			prelude = h.Events[i].Text
		} else {
			prog = h.Events[i].Text
			depth = int(h.Events[i].N)
		}
	}
	if prog == "" {
		st.Shape = "empty"
		return o
	}
	if depth == 0 {
		depth = cfg.MaxDepth
	}
	N := tokenCount(prelude, prog)
	bound := int64(N * (depth + 2))
	key := h.Strs["key"]
	fail := func(oracle, detail string) {
		if o.Viol == nil {
			o.Viol = &core.Violation{Oracle: oracle, Sig: "C09|deadline|" + oracle + "|" + key, Detail: detail}
		}
	}
	s := world.NewSession(cfg)
	st.Execs = 1
	if prelude != "" {
		s.Input(prelude, nil)
	}
	// T: ticks to the natural end (cap for the endless ones)
	capT := h.C("cap")
	probe := s.Input(prog, &core.Fault{Kind: "deadline", At: capT + 1})
	T := capT
	if !probe.Fired {
		T = min(probe.Ticks, capT)
		for i := range h.Events {
			if h.Events[i].Ev == "program" && h.Events[i].M == 1 {
				// virtual time only advances when the evaluator polls the context: an endless loop that "finished"
				// before tick cap+1 ran (for real seconds) without looking at the deadline at all
				fail("evaluation-polls-the-deadline", fmt.Sprintf("%q cannot end by itself, yet it returned %s after only %d context polls with the deadline at tick %d never reached: the loop ran without polling the context", prog, probe.Class, probe.Ticks, capT+1))
			}
		}
	}
	classes := map[string]int{}
	for k := int64(1); k <= T; k++ {
		c09Heartbeat()
		r := s.Input(prog, &core.Fault{Kind: "deadline", At: k})
		classes[r.Class]++
		if r.Fired {
			st.Fault("deadline")
			st.Nontrivial = true
		}
		if strings.Contains(strings.Join(r.Errs, " "), "simulator: evaluation kept running") {
			fail("returns-after-deadline", fmt.Sprintf("%q with the deadline at tick %d: evaluation did not stop (more than %d context polls after firing)", prog, k, world.RunawayTicks))
			break
		}
		if r.Fired && r.TicksAfter > bound {
			fail("polls-after-deadline-bounded", fmt.Sprintf("%q deadline at tick %d: %d context polls after firing, bound N*(D+2) = %d*(%d+2) = %d", prog, k, r.TicksAfter, N, depth, bound))
		}
		if r.Fired && r.Class == "value" && r.TicksAfter > bound {
			fail("fired-deadline-reported", fmt.Sprintf("%q deadline at tick %d fired but a value was returned after %d more polls", prog, k, r.TicksAfter))
		}
		if r.Fired && r.Ticks > k+bound+int64(world.TPS) && strings.Contains(key, "sleep") {
			fail("sleep-honours-deadline", fmt.Sprintf("%q deadline at tick %d: returned at tick %d", prog, k, r.Ticks))
		}
		// the session must be usable afterwards
		if p := s.Input(`println("alive", 6 * 7)`, nil); p.Out != "alive 42\n" {
			fail("session-usable-after-deadline", fmt.Sprintf("after %q cancelled at tick %d (%s) the probe printed %q (%s %v)", prog, k, r.Class, p.Out, p.Class, truncAll(p.Errs)))
		}
		if o.Viol != nil {
			break
		}
	}
	var cl []string
	for k := range classes {
		cl = append(cl, k)
	}
	st.ProbeN("deadline_instants_swept", int(T))
	st.Ticks = s.W.Ticks
	st.Shape = shapeOf(append([]string{"deadline", key, fmt.Sprint(T / 50)}, sortedStrs(cl)...))
	return o
}

func sortedStrs(xs []string) []string {
	out := append([]string(nil), xs...)
	for i := range out {
		for j := i + 1; j < len(out); j++ {
			if out[j] < out[i] {
				out[i], out[j] = out[j], out[i]
			}
		}
	}
	return out
}

func (c09) execDepth(h *core.History) *core.Outcome {
	o := &core.Outcome{}
	st := &o.Stats
	cfg := sessCfgOf(h)
	cfg.Budget = 50_000_000
	key := h.Strs["key"]
	fail := func(oracle, detail string) {
		if o.Viol == nil {
			o.Viol = &core.Violation{Oracle: oracle, Sig: "C09|depth|" + oracle + "|" + key, Detail: detail}
		}
	}
	s := world.NewSession(cfg)
	st.Execs = 1
	var prog string
	for i := range h.Events {
		if h.Events[i].Ev == "prelude" && h.Events[i].Text != "" {
			s.Input(h.Events[i].Text, nil)
		} else if h.Events[i].Ev == "program" {
			prog = h.Events[i].Text
		}
	}
	if prog == "" {
		st.Shape = "empty"
		return o
	}
	c09Heartbeat()
	D := calibrateDepth(cfg)
	c09Heartbeat()
	r := s.Input(prog, nil)
	c09Heartbeat()
	switch r.Class {
	case "panic:guard-depth":
		st.Fault("depth_guard")
		st.Nontrivial = true
	case "value", "lang-error", "parse-error":
		if n := strings.Count(prog, "-("); key == "nested-prefix" && r.Class == "value" && n > cfg.MaxDepth+2 {
			// every prefix operator evaluates its operand one level deeper: a chain longer than the limit must hit the guard
			fail("depth-limit-applies-to-nesting", fmt.Sprintf("MaxDepth=%d: a chain of %d nested prefix operators evaluated to %s instead of the max-depth failure", cfg.MaxDepth, n, trunc(r.Echo, 40)))
		}
	default:
		fail("depth-failure-is-the-guard", fmt.Sprintf("MaxDepth=%d, %q ended as %s %v", cfg.MaxDepth, trunc(prog, 120), r.Class, truncAll(r.Errs)))
	}
	// depth counter reset: a recursion to MaxDepth-eps must succeed now
	p := s.Input(fmt.Sprintf(`(x => if x <= 0 { 0 } else { 1 + self(x - 1) })(%d)`, D), nil)
	if p.Class != "value" || p.Echo != strconv.Itoa(D)+"\n" {
		fail("depth-reset-after-failure", fmt.Sprintf("MaxDepth=%d: after %q (%s) a recursion of %d levels that fits a fresh session gives %s %q", cfg.MaxDepth, trunc(prog, 120), r.Class, D, p.Class, p.Echo))
	}
	st.Ticks = s.W.Ticks
	st.Shape = shapeOf([]string{"depth", key, r.Class, fmt.Sprint(cfg.MaxDepth / 300)})
	return o
}

type c09Report struct {
	Res  string   `json:"res"`
	Errs []string `json:"errs"`
}

const c09MemLimit = 64 << 20
const c09ASLimit = 64 * c09MemLimit

// c09Worker: worker c09 <maxdepth> <simmem 0|1> <program>
func c09Worker(args []string) int {
	maxDepth, _ := strconv.Atoi(args[0])
	simmem := args[1] == "1"
	prog := args[2]
	debug.SetMemoryLimit(c09MemLimit)
	lim := syscall.Rlimit{Cur: c09ASLimit, Max: c09ASLimit}
	_ = syscall.Setrlimit(syscall.RLIMIT_AS, &lim)
	world.Install(nil)
	if strings.HasPrefix(prog, "cyc = ") {
		// endless Go-level recursion over a cyclic value dies at any stack limit: use a small one to die quickly
		debug.SetMaxStack(64 << 20)
	}
	if simmem {
		world.ArmProcessMemory(c09MemLimit / 2)
	}
	opts := repl.EvalStringOptions()
	opts.MaxDepth = maxDepth
	opts.MaxDuration = 0
	res, errs, _ := repl.EvalStringWithOption(context.Background(), opts, prog)
	if len(res) > 200 {
		res = res[:200]
	}
	_ = json.NewEncoder(os.Stdout).Encode(c09Report{Res: res, Errs: truncAll(errs)})
	return 0
}

// c09dWorker: worker c09d <maxdepth> <fireAt> <prelude> <program>: evaluates under the virtual deadline in a
// child, because an evaluation path that never polls the context cannot be interrupted in-process.
func c09dWorker(args []string) int {
	maxDepth, _ := strconv.Atoi(args[0])
	fireAt, _ := strconv.ParseInt(args[1], 10, 64)
	if dir := os.Getenv("VERIF_TMP"); dir != "" {
		_ = os.Chdir(dir) // the load-loop prelude saves a file: keep it out of the harness directory
	}
	if strings.Contains(args[3], "run(") || strings.Contains(args[3], "exec(") {
		world.Install(&extensions.Config{HasLoad: true, HasSave: true, UnrestrictedIOs: true})
	}
	s := world.NewSession(world.SessCfg{MaxDepth: maxDepth, Budget: 1 << 40})
	if args[2] != "" {
		s.Input(args[2], nil)
	}
	r := s.Input(args[3], &core.Fault{Kind: "deadline", At: fireAt})
	_ = json.NewEncoder(os.Stdout).Encode(map[string]any{"class": r.Class, "fired": r.Fired, "ticks_after": r.TicksAfter, "ticks": r.Ticks})
	return 0
}

var c09NoPoll = []c09prog{
	{"unjson-loop", "", `unjson("for true { }")`, 1, true},
	{"unjson-recursion-loop", "", `unjson("x = 0; for x >= 0 { x++ }")`, 1, true},
	{"eval-loop", "", `eval("for true { }")`, 1, true},
	{"macro-body-loop", "", "mloop = macro() { for true { } }\nmloop()", 1, true},
	{"macro-arg-loop", "mq = macro(a1) { quote(unquote(a1)) }", `mq((() => { for true { } })())`, 1, true},
	{"load-loop", `save("c09tmp")`, `unjson("for true { len([1]) }")`, 1, true},
	// process-execution functions (unrestricted IO, the CLI default) juggle the state's context
	{"run-then-loop", "", `run("true"); for true { }`, 1, true},
	{"run-error-then-loop", "", `catch(run("/nonexistent/c09cmd")); for true { }`, 1, true},
	{"exec-then-loop", "", `exec("true"); for true { }`, 1, true},
	// a Go-level walk over a value with 2^40 shared sub-arrays (41 small arrays in memory): == never re-enters the evaluator
	{"shared-subarray-compare", "", `sa9 = [1]; for 40 { sa9 = [sa9, sa9] }; sa9 == sa9`, 1, true},
}

func (c09) execNoPoll(h *core.History) *core.Outcome {
	o := &core.Outcome{}
	st := &o.Stats
	key := h.Strs["key"]
	var prelude, prog string
	for i := range h.Events {
		if h.Events[i].Ev == "prelude" {
			prelude = h.Events[i].Text
		} else if h.Events[i].Ev == "program" {
			prog = h.Events[i].Text
		}
	}
	if prog == "" {
		st.Shape = "empty"
		return o
	}
	self, _ := os.Executable()
	watchdog := 45 * time.Second
	if key == "shared-subarray-compare" {
		watchdog = 10 * time.Second // a recorded finding that always hangs: 2^40 steps are not a matter of seconds either way
	}
	ctx, cancel := context.WithTimeout(context.Background(), watchdog)
	defer cancel()
	cmd := exec.CommandContext(ctx, self, "worker", "c09d", strconv.FormatInt(h.C("maxdepth"), 10), strconv.FormatInt(h.C("fireat"), 10), prelude, prog)
	var ob, eb bytes.Buffer
	cmd.Stdout, cmd.Stderr = &ob, &eb
	err := cmd.Run()
	st.Children = 1
	st.Probe("nopoll_program:" + key)
	class := "?"
	switch {
	case ctx.Err() != nil:
		class = "hung"
		o.Viol = &core.Violation{Oracle: "returns-after-deadline", Sig: "C09|nopoll|returns-after-deadline|" + key,
			Detail: fmt.Sprintf("%q with the virtual deadline at tick %d: the evaluation never polled the context again and did not return (child killed by the watchdog after 10-45 s of real time)", prog, h.C("fireat"))}
	case err != nil:
		class = "died"
		o.Viol = &core.Violation{Oracle: "process-survives", Sig: "C09|nopoll|process-survives|" + key, Detail: fmt.Sprintf("%q: %v %s", prog, err, fatalLines(eb.String()))}
	default:
		var rep struct {
			Class      string `json:"class"`
			Fired      bool   `json:"fired"`
			TicksAfter int64  `json:"ticks_after"`
		}
		if json.Unmarshal(ob.Bytes(), &rep) != nil {
			st.Discarded = true
			st.Panic("bad c09d report " + trunc(ob.String(), 100))
		} else {
			class = rep.Class
			if rep.Fired {
				st.Fault("deadline")
				st.Nontrivial = true
			}
			if rep.Class == "value" {
				o.Viol = &core.Violation{Oracle: "fired-deadline-reported", Sig: "C09|nopoll|endless-program-returned-value|" + key, Detail: fmt.Sprintf("%q returned a value", prog)}
			}
			if !rep.Fired && rep.Class != "value" {
				// the program cannot end by itself and the virtual deadline never fired: something else (a private
				// context with its own real-time default) stopped it, i.e. the configured deadline was not the one in force
				o.Viol = &core.Violation{Oracle: "configured-deadline-in-force", Sig: "C09|nopoll|configured-deadline-in-force|" + key,
					Detail: fmt.Sprintf("%q ended as %s although the virtual deadline at tick %d never fired", prog, rep.Class, h.C("fireat"))}
			}
			if rep.TicksAfter > 10000 {
				o.Viol = &core.Violation{Oracle: "polls-after-deadline-bounded", Sig: "C09|nopoll|polls-after-deadline|" + key, Detail: fmt.Sprintf("%q: %d polls after the deadline fired", prog, rep.TicksAfter)}
			}
		}
	}
	st.Shape = shapeOf([]string{"nopoll", key, class, fmt.Sprint(h.C("fireat") / 20)})
	return o
}

func (c09) execMemory(h *core.History) *core.Outcome {
	o := &core.Outcome{}
	st := &o.Stats
	key := h.Strs["key"]
	prog := ""
	for i := range h.Events {
		if h.Events[i].Ev == "program" {
			prog = h.Events[i].Text
		}
	}
	if prog == "" {
		st.Shape = "empty"
		return o
	}
	self, _ := os.Executable()
	sim := "0"
	if h.F("simmem") {
		sim = "1"
	}
	ctx, cancel := context.WithTimeout(context.Background(), 120*time.Second)
	defer cancel()
	cmd := exec.CommandContext(ctx, self, "worker", "c09", strconv.FormatInt(h.C("maxdepth"), 10), sim, prog)
	var ob, eb bytes.Buffer
	cmd.Stdout, cmd.Stderr = &ob, &eb
	err := cmd.Run()
	st.Children = 1
	fail := func(oracle, detail string) {
		o.Viol = &core.Violation{Oracle: oracle, Sig: "C09|memory|" + oracle + "|" + key, Detail: detail}
	}
	class := "reported"
	if ctx.Err() != nil {
		class = "timeout"
		fail("child-returns", fmt.Sprintf("%q: the child did not finish within 120 s of real time (no deadline was configured; reported as a finding only if reproducible)", prog))
		o.Viol = nil // wall-clock: never a verdict, only noted
		st.Panic("child timeout (not judged): " + prog)
		st.Discarded = true
	} else if err != nil {
		class = "died"
		msg := eb.String()
		kind := "exit"
		switch {
		case strings.Contains(msg, "stack overflow"):
			kind = "stack-overflow"
		case strings.Contains(msg, "out of memory"):
			kind = "out-of-memory"
		case strings.Contains(msg, "fatal error"):
			kind = "fatal-error"
		}
		fail("process-survives", fmt.Sprintf("%q (MaxDepth=%d, GOMEMLIMIT=64MiB, RLIMIT_AS=4GiB): the interpreter process died: %v [%s] %s", prog, h.C("maxdepth"), err, kind, fatalLines(msg)))
		o.Viol.Sig += "|" + kind
	} else {
		var rep c09Report
		if json.Unmarshal(ob.Bytes(), &rep) != nil {
			st.Discarded = true
			st.Panic("bad child report: " + trunc(ob.String(), 100))
		} else {
			all := strings.Join(rep.Errs, " ")
			switch {
			case strings.Contains(all, "would exceed memory"):
				class = "guard-memory"
				st.Fault("alloc_refused")
				st.Nontrivial = true
			case strings.Contains(all, "max depth"):
				class = "guard-depth"
				st.Fault("depth_guard")
				st.Nontrivial = true
			case strings.Contains(all, "panic:"):
				class = "other-panic"
				st.Panic(trunc(all, 160))
			case len(rep.Errs) > 0:
				class = "error"
			default:
				class = "value"
				if unit, ok := c09Unit[key]; ok && h.F("simmem") {
					if n, err := strconv.ParseInt(strings.TrimSpace(rep.Res), 10, 64); err == nil && n*unit > c09MemLimit/2 {
						fail("result-within-memory-budget", fmt.Sprintf("%q: with a free-memory budget of %d bytes the operator returned a result of %d units x %d bytes = %d bytes instead of refusing it", prog, c09MemLimit/2, n, unit, n*unit))
					}
				}
			}
		}
	}
	st.Shape = shapeOf([]string{"memory", key, class, fmt.Sprint(h.F("simmem"))})
	return o
}

// fatalLines keeps, from a dead child's stderr, only what does not vary between runs: the "fatal error:"/"panic:"
// lines (no addresses, goroutine numbers or stack frames, which depend on GOMAXPROCS and ASLR).
func fatalLines(stderr string) string {
	var keep []string
	for _, l := range strings.Split(stderr, "\n") {
		if strings.HasPrefix(l, "fatal error:") || strings.HasPrefix(l, "panic:") || strings.HasPrefix(l, "runtime: goroutine stack exceeds") {
			keep = append(keep, strings.TrimSpace(l))
		}
		if len(keep) >= 3 {
			break
		}
	}
	if len(keep) == 0 {
		return "(no fatal error line on stderr)"
	}
	return strings.Join(keep, " | ")
}

// c09rWorker: worker c09r <parent: background|parent-later|parent-earlier> <program>: evaluates under a REAL
// MaxDuration of 150 ms; the host context has no deadline, one of 25 s, or one of 50 ms. Prints elapsed ms.
func c09rWorker(args []string) int {
	world.Install(nil)
	ctx := context.Background()
	var cancel context.CancelFunc = func() {}
	switch args[0] {
	case "parent-later":
		ctx, cancel = context.WithTimeout(ctx, 25*time.Second)
	case "parent-earlier":
		ctx, cancel = context.WithTimeout(ctx, 50*time.Millisecond)
	}
	defer cancel()
	opts := repl.EvalStringOptions()
	opts.MaxDepth = 100000
	opts.MaxDuration = 150 * time.Millisecond
	start := time.Now()
	_, errs, _ := repl.EvalStringWithOption(ctx, opts, args[1])
	_ = json.NewEncoder(os.Stdout).Encode(map[string]any{"elapsed_ms": time.Since(start).Milliseconds(), "errs": truncAll(errs)})
	return 0
}

// execRealTimer: the only place where real time is judged, with a margin of two orders of magnitude: the evaluation
// is limited to 150 ms (or 50 ms by the host), the verdict is "came back within 8 s" (the default context of a private evaluator would be 10 s).
func (c09) execRealTimer(h *core.History) *core.Outcome {
	o := &core.Outcome{}
	st := &o.Stats
	prog := h.Events[len(h.Events)-1].Text
	if len(h.Events) == 0 || h.Events[0].Ev != "program" {
		st.Shape = "empty"
		return o
	}
	self, _ := os.Executable()
	ctx, cancel := context.WithTimeout(context.Background(), 60*time.Second)
	defer cancel()
	cmd := exec.CommandContext(ctx, self, "worker", "c09r", h.Strs["key"], prog)
	var ob, eb bytes.Buffer
	cmd.Stdout, cmd.Stderr = &ob, &eb
	err := cmd.Run()
	st.Children = 1
	st.Fault("real_timer_deadline")
	var rep struct {
		Elapsed int64    `json:"elapsed_ms"`
		Errs    []string `json:"errs"`
	}
	switch {
	case ctx.Err() != nil:
		o.Viol = &core.Violation{Oracle: "returns-within-real-deadline", Sig: "C09|realtimer|" + h.Strs["key"] + "|hung",
			Detail: fmt.Sprintf("%q with MaxDuration=150ms (host context: %s) did not return within 60 s", prog, h.Strs["key"])}
	case err != nil:
		o.Viol = &core.Violation{Oracle: "process-survives", Sig: "C09|realtimer|" + h.Strs["key"] + "|died", Detail: fmt.Sprintf("%q: %v %s", prog, err, fatalLines(eb.String()))}
	case json.Unmarshal(ob.Bytes(), &rep) != nil:
		st.Discarded = true
		st.Panic("bad c09r output " + trunc(ob.String(), 100))
	case rep.Elapsed > 8000:
		o.Viol = &core.Violation{Oracle: "returns-within-real-deadline", Sig: "C09|realtimer|" + h.Strs["key"] + "|late",
			Detail: fmt.Sprintf("%q with MaxDuration=150ms (host context: %s) returned after %d ms", prog, h.Strs["key"], rep.Elapsed)}
	case !strings.Contains(strings.Join(rep.Errs, " "), "deadline exceeded"):
		o.Viol = &core.Violation{Oracle: "fired-deadline-reported", Sig: "C09|realtimer|" + h.Strs["key"] + "|not-reported",
			Detail: fmt.Sprintf("%q with MaxDuration=150ms (host context: %s) returned %v instead of a deadline error", prog, h.Strs["key"], rep.Errs)}
	}
	st.Nontrivial = true
	st.Shape = shapeOf([]string{"realtimer", h.Strs["key"]}) // elapsed time is deliberately not part of the record
	return o
}
