package scen

import (
	"bytes"
	"fmt"
	"os"
	"path/filepath"
	"sort"
	"strconv"
	"strings"
	"time"

	"grol.io/grol/repl"
	"verifsim/core"
	"verifsim/gen"
	"verifsim/world"
)

// C14 — saved state loads back to the same state (DESIGN 5.9).
type c14 struct{}

func init() { register(c14{}) }

func (c14) ID() string { return "C14" }

func (c14) Info() core.Info {
	return core.Info{
		Level: "exploration",
		Rule: "seeded worlds: incarnation 1 binds globals of generator-known kinds (int64 extremes, floats: integral, subnormal, huge, +-Inf, NaN, -0; strings over all byte values incl. control bytes, quotes, backslashes, invalid UTF-8; nested arrays/maps with keys of every type; " +
			"named functions and lambdas from the workload grammar) in a scratch directory, saves (save(\"name\"), SaveGlobals to a file, or AutoSave), restarts (fresh eval.State), loads (load(\"name\") whole-file, or AutoLoad line by line), observes every binding as a typed canonical tree, " +
			"calls every loaded function on a fixed argument vector, and saves again; up to 3 cycles; MaxValueLen from {0, 10, 100, 4000}. Faults: the state file is truncated at a PRNG-chosen byte or one byte is flipped between save and load (what a torn write or bad disk leaves), " +
			"and one binding just above bufio.Scanner's 64 KiB line limit. Oracles: value and type equal, functions behave identically, one line per binding = count returned, second save byte-identical, over-long values absent and neighbours intact, AutoLoad of a damaged file does not panic and restores every intact line. " +
			"distinct = distinct sequence of (value kind, save kind, load kind, fault kind); non-trivial = at least one non-integer value or function crossed a save/load boundary.",
		Real:        []string{"object.Environment.SaveGlobals, Inspect of every value type, Function.Inspect/compact printer", "extensions save()/load() incl. sanitizer", "repl.AutoSave/AutoLoad (bufio.Scanner line loop)", "lexer/parser/evaluator re-reading the file", "the kernel's file system (scratch directory)"},
		Stubbed:     []string{"process restart is a fresh eval.State in the same OS process (token interning table survives; C03 covers its influence)"},
		Assumptions: []string{"expected value of a binding after reload = its typed canonical tree observed before the save", "built-in identifiers that SaveGlobals also writes (abs, printf, Inf, ...) are ignored"},
	}
}

func (c14) Budget(tier string) core.Budget {
	if tier == "thorough" {
		return core.Budget{Runs: 200000, WallCap: 20 * time.Minute}
	}
	return core.Budget{Runs: 5000, WallCap: 60 * time.Second}
}

type vkind struct {
	kind string
	src  func(r *core.Rng) string
}

func quoteGrol(s string) string {
	// grol's lexer understands \\ \" \n \r \t \xNN; write every other byte as \xNN so the string that
	// reaches the binding is exactly the intended byte sequence.
	var b strings.Builder
	b.WriteByte('"')
	for i := 0; i < len(s); i++ {
		c := s[i]
		switch {
		case c == '\\' || c == '"':
			b.WriteByte('\\')
			b.WriteByte(c)
		case c >= 0x20 && c < 0x7f:
			b.WriteByte(c)
		default:
			fmt.Fprintf(&b, "\\x%02x", c)
		}
	}
	b.WriteByte('"')
	return b.String()
}

var c14Kinds = []vkind{
	{"int", func(r *core.Rng) string { return strconv.Itoa(r.Intn(2000) - 1000) }},
	{"int-extreme", func(r *core.Rng) string {
		return core.Pick(r, []string{"9223372036854775807", "-9223372036854775807", "4611686018427387904", "9007199254740993", "-4611686018427387905"})
	}},
	{"int-min", func(r *core.Rng) string { return "(-9223372036854775807 - 1)" }},
	{"bool-nil", func(r *core.Rng) string { return core.Pick(r, []string{"true", "false", "nil"}) }},
	{"float-fraction", func(r *core.Rng) string {
		return core.Pick(r, []string{"0.5", "-2.75", "3.141592653589793", "0.1", "1e-7", "123456.789"})
	}},
	{"float-integral", func(r *core.Rng) string {
		return core.Pick(r, []string{"3.0", "-7.0", "100.0", "0.0", "1e6", "4503599627370496.0"})
	}},
	{"float-negzero", func(r *core.Rng) string { return "-0.0" }},
	// integral floats at or above 2^63: written as digits that overflow an integer literal and must read back as that float
	{"float-integral-beyond-int64", func(r *core.Rng) string {
		return core.Pick(r, []string{"1e19", "9223372036854775808.0", "-1e19", "1.5e19", "18446744073709551615.0", "1.2e19"})
	}},
	{"float-huge", func(r *core.Rng) string {
		return core.Pick(r, []string{"1e21", "1.7976931348623157e308", "-1e300", "1e100"})
	}},
	{"float-subnormal", func(r *core.Rng) string { return core.Pick(r, []string{"5e-324", "2.2250738585072014e-308", "1e-310"}) }},
	{"float-inf-nan", func(r *core.Rng) string { return core.Pick(r, []string{"Inf", "-Inf", "NaN"}) }},
	{"string-plain", func(r *core.Rng) string {
		return quoteGrol(core.Pick(r, []string{"", "hello", "two words", "with 'single'", "a\"quote", "back\\slash", "tab\tnl\ncr\r", "été ☃ 😀", "// not a comment", "/* nor this */", "${x}"}))
	}},
	{"string-ctrl-abfv", func(r *core.Rng) string {
		return quoteGrol("x" + string([]byte{byte(core.Pick(r, []int{7, 8, 11, 12}))}) + "y")
	}},
	{"string-ctrl-other", func(r *core.Rng) string {
		return quoteGrol("x" + string([]byte{byte(core.Pick(r, []int{0, 1, 2, 14, 27, 31, 127}))}) + "y")
	}},
	{"string-invalid-utf8", func(r *core.Rng) string {
		return quoteGrol(core.Pick(r, []string{"\xff", "a\xc3", "\xe2\x82", "\xf0\x9f\x98", "ok\x80ok", "\xed\xa0\x80"}))
	}},
	{"string-invalid-utf8-sliced", func(r *core.Rng) string {
		// bytes >= 0x80 obtained by slicing valid UTF-8, i.e. without going through the lexer's \\x escape
		return core.Pick(r, []string{`"é"[0:1]`, `"é"[1:2]`, `"😀"[0:3]`, `"€"[1:3]`, `"aé"[0:2]`, `("é"[0:1] + "x" + "ß"[1:2])`})
	}},
	{"string-unicode-escapes", func(r *core.Rng) string {
		return quoteGrol(core.Pick(r, []string{"\u0085", "\u00a0", "\ue000", "\U000e0001", "\u2028", "\ufeff"}))
	}},
	{"string-allbytes", func(r *core.Rng) string {
		n := 1 + r.Intn(12)
		b := make([]byte, n)
		for i := range b {
			b[i] = byte(r.Intn(256))
		}
		for _, c := range b {
			if c == 7 || c == 8 || c == 11 || c == 12 {
				return quoteGrol("plain") // those four are covered (and recorded) by string-ctrl-abfv
			}
		}
		return quoteGrol(string(b))
	}},
	{"array", func(r *core.Rng) string {
		n := core.Pick(r, []int{0, 1, 3, 8, 9, 15})
		parts := make([]string, n)
		for i := range parts {
			parts[i] = core.Pick(r, []string{"1", "-2", "\"s\"", "true", "nil", "[1, [2, 3]]", "{\"k\": 1}", "2.5"})
		}
		return "[" + strings.Join(parts, ", ") + "]"
	}},
	{"map-mixed-keys", func(r *core.Rng) string {
		keys := []string{"1", "-5", "2.5", "\"a\"", "\"b c\"", "true", "false", "nil", "[1, 2]", "\"\""}
		core.Shuffle(r, keys)
		n := r.Intn(8)
		parts := make([]string, n)
		for i := range parts {
			parts[i] = keys[i] + ": " + core.Pick(r, []string{"1", "\"v\"", "[1, 2]", "{\"in\": nil}", "-3", "0.25"})
		}
		return "{" + strings.Join(parts, ", ") + "}"
	}},
	{"long-value", func(r *core.Rng) string {
		return "\"" + strings.Repeat("L", core.Pick(r, []int{9, 11, 99, 101, 3999, 4001})) + "\""
	}},
}

func (c14) Generate(r *core.Rng, run int, tier string) *core.History {
	h := &core.History{Cfg: map[string]int64{"maxdepth": 2000}, Flags: map[string]bool{}, Strs: map[string]string{}}
	h.Cfg["maxvaluelen"] = int64(core.Pick(r, []int{0, 0, 10, 100, 4000}))
	h.Flags["nocache"] = r.Bool(.5)
	if run == 0 {
		h.Strs["probe"] = "closure-loses-captured-environment"
		h.Cfg["maxvaluelen"] = 0
		h.Events = []core.Event{
			{Ev: "func", Name: "add3", Text: "mk = func(n) { func(x) { x + n } }\nadd3 = mk(3)", Key: "closure", Args: []string{"add3(4)"}},
			{Ev: "save", Key: "save-ext"}, {Ev: "restart"}, {Ev: "load", Key: "load-ext"},
		}
		return h
	}
	if run == 2 || run == 3 {
		h.Strs["probe"] = "statement-starting-with-unary-minus-merges-with-previous"
		h.Cfg["maxvaluelen"] = 0
		src, call, name := "func gl1(x) { y := x * 2; (-y) > 3 }", "gl1(5)", "gl1"
		if run == 3 {
			h.Strs["probe"] = "float-sum-regrouped-by-printer"
			src, call, name = "func gl2(y) { (0.1 + 1.25) + (2.5e-3 + y) }", "gl2(68073)", "gl2"
		}
		h.Events = []core.Event{
			{Ev: "func", Name: name, Text: src, Key: "func-named", Args: []string{call}},
			{Ev: "save", Key: "save-ext"}, {Ev: "restart"}, {Ev: "load", Key: "load-ext"},
		}
		return h
	}
	if run == 4 || run == 5 {
		// the only change since the last auto-save is made by a function assigning an existing global
		h.Strs["probe"] = "autosave-after-write-from-function"
		h.Cfg["maxvaluelen"] = 0
		h.Events = []core.Event{
			{Ev: "bind", Name: "v_a", Text: "v_a = 1", Key: "int"},
			{Ev: "bind", Name: "v_l", Text: "v_l = [1, 2]", Key: "array-small"},
			{Ev: "func", Name: "setva", Text: "func setva(v) { v_a = v }", Key: "func-named", Args: nil},
			{Ev: "save", Key: "autosave"},
			{Ev: "mutate", Name: "v_a", Text: core.Pick(r, []string{"setva(5)", "setva(7); nil", "(() => { v_a = 9 })()"})},
			{Ev: "save", Key: "autosave-notouch"}, {Ev: "restart"}, {Ev: "load", Key: "autoload"},
		}
		if run == 5 {
			h.Events[4] = core.Event{Ev: "mutate", Name: "v_l", Text: core.Pick(r, []string{"(() => { v_l = [3] })()", "(() => { v_l = v_l + [4] })()"})}
		}
		return h
	}
	if run == 1 || run == 6 || run == 7 {
		// one binding longer than the line buffers a scanner may default to (64 KiB, 1 MiB, 2 MiB), unlimited MaxValueLen
		size := map[int]int{1: 70000, 6: 1<<20 + 77, 7: 2500000}[run]
		h.Strs["probe"] = "line-longer-than-64KiB"
		h.Cfg["maxvaluelen"] = 0
		h.Events = []core.Event{
			{Ev: "bind", Name: "v_a", Text: "v_a = 1", Key: "int"},
			{Ev: "bind", Name: "v_m", Text: fmt.Sprintf("v_m = \"x\" * %d", size), Key: fmt.Sprintf("string-%d", size)},
			{Ev: "bind", Name: "v_z", Text: "v_z = 2", Key: "int"},
			{Ev: "save", Key: "autosave"}, {Ev: "restart"}, {Ev: "load", Key: "autoload"},
		}
		return h
	}
	n := 1 + r.Intn(8)
	for i := 0; i < n; i++ {
		k := core.Pick(r, c14Kinds)
		name := fmt.Sprintf("v_%c%d", 'a'+rune(r.Intn(26)), i)
		if r.Bool(.2) {
			name = fmt.Sprintf("V_%c%d", 'A'+rune(r.Intn(26)), i) // an all-caps name: a constant of the session, saved like any other
		}
		h.Events = append(h.Events, core.Event{Ev: "bind", Name: name, Text: name + " = " + k.src(r), Key: k.kind})
	}
	if r.Bool(.6) {
		// functions from the workload grammar (no closures: see the probe; no outer reads/writes)
		flags := gen.SwarmFlags(r.Sub("flags"))
		flags.Closures, flags.GlobalReads, flags.GlobalWrites, flags.NonDet, flags.Redefine, flags.Consts = false, false, false, false, false, false
		flags.Comments = r.Bool(.5)
		flags.FloatNoAssoc = true
		g := gen.New(r.Sub("gen"), flags)
		bg := newBaseGen(g, sessCfgOf(h))
		for i, nf := 0, 1+r.Intn(3); i < nf; i++ {
			saved := g.Clone()
			src := g.FuncDef()
			if len(g.Funcs) == 0 {
				continue
			}
			f := g.Funcs[len(g.Funcs)-1]
			if !bg.AddFixed([]string{src}) {
				g.Restore(saved)
				continue
			}
			var calls []string
			for k := 0; k < 2; k++ {
				calls = append(calls, g.Call(f, 2))
			}
			kind := "func-named"
			if f.IsVar {
				kind = "func-lambda"
			}
			h.Events = append(h.Events, core.Event{Ev: "func", Name: f.Name, Text: src, Key: kind, Args: calls})
		}
	}
	if r.Bool(.5) {
		// hand-written functions whose printed form is delicate (precedence, braces, signs, statement separation)
		for k, n := 0, 1+r.Intn(3); k < n; k++ {
			t := core.Pick(r, c14Tricky)
			dup := false
			for i := range h.Events {
				if h.Events[i].Name == t.name {
					dup = true
				}
			}
			if !dup {
				h.Events = append(h.Events, core.Event{Ev: "func", Name: t.name, Key: t.kind, Text: t.src, Args: t.calls})
			}
		}
	}
	if r.Bool(.15) {
		// a named function whose saved line is several KB long (functions are never length limited)
		terms := make([]string, 0, 1100)
		for k, n := 0, 500+r.Intn(600); k < n; k++ {
			terms = append(terms, strconv.Itoa(k%97))
		}
		h.Events = append(h.Events, core.Event{Ev: "func", Name: "bigfn", Key: "func-named-long",
			Text: "func bigfn(x) { x + " + strings.Join(terms, " + ") + " }", Args: []string{"bigfn(1)", "bigfn(-5)"}})
		h.Events = append(h.Events, core.Event{Ev: "bind", Name: "v_zlast", Text: "v_zlast = 7", Key: "int"})
	}
	cycles := 1 + r.Intn(3)
	for c := 0; c < cycles; c++ {
		sk := core.Pick(r, []string{"save-ext", "saveglobals", "autosave"})
		lk := core.Pick(r, []string{"load-ext", "autoload"})
		h.Events = append(h.Events, core.Event{Ev: "save", Key: sk})
		if c == 0 && r.Bool(.2) {
			h.Events = append(h.Events, core.Event{Ev: "corrupt", Key: core.Pick(r, []string{"truncate", "flip", "garbage-line", "garbage-line"}), N: int64(r.Intn(1 << 20))})
			lk = "autoload"
		}
		h.Events = append(h.Events, core.Event{Ev: "restart"}, core.Event{Ev: "load", Key: lk})
	}
	return h
}

var c14Tricky = []struct {
	name, kind, src string
	calls           []string
}{
	{"tl1", "func-lambda", `tl1 = (x, m1) => { {"k7": 3} + m1 }`, []string{`tl1(1, {"a": 2})`, `tl1(2, {})`}},
	{"tl2", "func-lambda", `tl2 = (x, y) => { x > 1 && y > 1 }`, []string{`tl2(2, 3)`, `tl2(0, 3)`}},
	{"tl3", "func-lambda", `tl3 = x => { 69 - (-(3 * x)) }`, []string{`tl3(4)`, `tl3(-2)`}},
	{"tl4", "func-lambda", `tl4 = (a1, b1, c1) => { a1 - (b1 - c1) }`, []string{`tl4(9, 4, 2)`, `tl4(1, 2, 3)`}},
	{"tl5", "func-lambda", `tl5 = x => { (y => y + x)(2) }`, []string{`tl5(5)`, `tl5(0)`}},
	{"tl6", "func-named", `func tl6(x) { v := x * 2; (-v) > 3 }`, []string{`tl6(5)`, `tl6(-5)`}},
	{"tl7", "func-lambda", `tl7 = x => { x = x + 1; x }`, []string{`tl7(1)`, `tl7(41)`}},
	{"tl8", "func-named", `func tl8(n) { 129; 13850 + n }`, []string{`tl8(1)`, `tl8(2)`}},
	{"tl9", "func-lambda", `tl9 = (x) => { if x > 2 { "big" } else { "small" } }`, []string{`tl9(1)`, `tl9(3)`}},
	{"tl10", "func-lambda", `tl10 = x => { [x, x * 2][1] }`, []string{`tl10(4)`, `tl10(0)`}},
	{"tl11", "func-named", `func tl11(a1, b1) { a1 / (b1 * 2) - a1 % (b1 % 7) }`, []string{`tl11(100, 3)`, `tl11(7, 9)`}},
	{"tl12", "func-lambda", `tl12 = (x, y) => { x = y; x == 1 || y == 2 }`, []string{`tl12(0, 2)`, `tl12(0, 0)`}},
	{"tl13", "func-named", `func tl13(x) { y := x; y++; ++y; y - -x }`, []string{`tl13(3)`, `tl13(0)`}},
	{"tl14", "func-lambda", `tl14 = x => { {"a": x}.a + 1 }`, []string{`tl14(3)`, `tl14(9)`}},
	{"tl15", "func-lambda", `tl15 = x => { /* nothing but a comment */ }`, []string{`tl15(1)`}},
	{"tl17", "func-lambda", `tl17 = x => { "say \"hi\"\nline two " + str(x) }`, []string{`tl17(1)`, `tl17(-3)`}},
	{"tl18", "func-named", "func tl18(x) { s := \"a\\\"b\\nc\"; len(s) + x }", []string{`tl18(1)`, `tl18(0)`}},
	{"tl19", "func-lambda", `tl19 = x => { x[1:] + x[2:] }`, []string{`tl19([1, 2, 3])`, `tl19("abcd")`}},
	{"tl20", "func-lambda", `tl20 = x => { return x + 1 }`, []string{`tl20(1)`, `tl20(-1)`}},
	{"tl21", "func-lambda", `tl21 = () => { return }`, []string{`tl21()`}},
	{"tl16alias", "func-lambda", "func tl16(x) { x + 1 }\ntl16alias = tl16", []string{`tl16alias(3)`, `tl16alias(-1)`}},
}

var c14Garbage = []string{`zz9=(x,;,p)=>1`, `{`, `"unterminated`, `/* open comment`, `)))`, `zz9=1/0`, `zz9=1<<(0-1)`, `zz9="abc"[0-5:2]`, `zz9=unquote(`, `func (`, `zz9=[1,2`, "\x00\x01\x02"}

const c14File = "st" // save("st") -> ./st.gr

func isBuiltinLine(line string) bool {
	for _, p := range []string{"Inf=", "NaN=", "abs=", "keys=", "log2=", "nil=", "null=", "printf=", "func str("} {
		if strings.HasPrefix(line, p) {
			return true
		}
	}
	return false
}

func (c14) Execute(h *core.History) *core.Outcome {
	o := &core.Outcome{}
	st := &o.Stats
	base := os.Getenv("VERIF_TMP")
	if base == "" {
		base = os.TempDir()
	}
	dir, err := os.MkdirTemp(base, "c14-")
	if err != nil {
		panic(err)
	}
	defer os.RemoveAll(dir)
	cwd, _ := os.Getwd()
	if err := os.Chdir(dir); err != nil {
		panic(err)
	}
	defer func() { _ = os.Chdir(cwd) }()
	cfg := sessCfgOf(h)
	sess := world.NewSession(cfg)
	st.Execs = 1
	opts := sess.Opts
	opts.AutoLoad, opts.AutoSave = true, true
	opts.MaxValueLen = cfg.MaxValueLen
	var bound []*c14binding     // bindings expected in the current session
	var fileBound []*c14binding // bindings expected in the last saved file
	anyTooLongFunc := false
	var firstKnown *core.Violation
	report := func(v *core.Violation) {
		if p := h.Strs["probe"]; p != "" {
			v.Sig = "C14|probe:" + p
		}
		if knownSig("C14", v.Sig) {
			st.Probe("known_roundtrip_finding_seen")
			if firstKnown == nil {
				firstKnown = v
			}
			return
		}
		if o.Viol == nil {
			o.Viol = v
		}
	}
	var shape []string
	var lastSaved, lastFile string // bytes of the last save and the file it went to
	var lastCount int
	saves := 0
	corrupted := false
	var intact map[string]bool
	callAll := func(b *c14binding) []string {
		var res []string
		for _, c := range b.calls {
			r := sess.Input(c, nil)
			res = append(res, r.Key())
		}
		return res
	}
	for i := range h.Events {
		e := &h.Events[i]
		switch e.Ev {
		case "mutate":
			// a plain input that changes an existing binding (possibly from inside a function)
			if r := sess.Input(e.Text, nil); r.Class != "value" {
				st.Discarded = true
				st.Panic(fmt.Sprintf("mutate %q: %s %v", e.Text, r.Class, truncAll(r.Errs)))
				break
			}
			for _, b := range bound {
				if b.name == e.Name {
					b.canon, _ = sess.Observe(e.Name)
				}
			}
			saves = 0 // the next save is not a re-save of the same state
			shape = append(shape, "mutate")
		case "bind", "func":
			r := sess.Input(e.Text, nil)
			if r.Class != "value" {
				if e.Ev == "bind" {
					// value sources are fixed texts of the generator, valid by construction
					report(&core.Violation{Oracle: "binding-accepted", Event: i, Sig: "C14|binding-rejected|" + e.Key,
						Detail: fmt.Sprintf("%q gives %s %v", trunc(e.Text, 200), r.Class, truncAll(r.Errs))})
					break
				}
				st.Discarded = true // functions come from the random grammar: after shrinking a callee may be gone
				st.Panic(fmt.Sprintf("bind %q: %s %v", trunc(e.Text, 100), r.Class, truncAll(r.Errs)))
				break
			}
			b := &c14binding{name: e.Name, kind: e.Key, calls: e.Args}
			b.canon, _ = sess.Observe(e.Name)
			if e.Ev == "func" {
				b.results = callAll(b)
			}
			if strings.HasPrefix(e.Key, "func-named") {
				// named functions are written whatever their length
			} else if o, err := sess.ObserveObj(e.Name); err == nil && cfg.MaxValueLen > 0 && len(o.Inspect()) > cfg.MaxValueLen {
				b.tooLong = true
			}
			bound = append(bound, b)
			shape = append(shape, e.Ev+":"+e.Key)
			if e.Key != "int" {
				st.Nontrivial = true
			}
		case "save":
			saves++
			lastFile = c14File + ".gr"
			switch e.Key {
			case "save-ext":
				r := sess.Input(fmt.Sprintf("save(%q)", c14File), nil)
				if r.Class != "value" {
					report(&core.Violation{Oracle: "save-fails", Event: i, Sig: "C14|save-fails|" + e.Key, Detail: fmt.Sprintf("save() -> %s %v", r.Class, truncAll(r.Errs))})
				}
				if tree, ok := sess.Observe(fmt.Sprintf("save(%q).entries", c14File)); ok {
					lastCount, _ = strconv.Atoi(strings.TrimPrefix(tree, "i:"))
				}
			case "saveglobals":
				var b bytes.Buffer
				n, err := sess.St.SaveGlobals(&b)
				lastCount = n
				if err != nil {
					report(&core.Violation{Oracle: "save-fails", Event: i, Sig: "C14|save-fails|" + e.Key, Detail: err.Error()})
				}
				_ = os.WriteFile(lastFile, b.Bytes(), 0o644)
			case "autosave-notouch":
				// exactly what the REPL does after an input: save if (and only if) the state says something changed
				lastFile = repl.AutoSaveFile
				if err := repl.AutoSave(sess.St, opts); err != nil {
					report(&core.Violation{Oracle: "save-fails", Event: i, Sig: "C14|save-fails|" + e.Key, Detail: err.Error()})
				}
				var b bytes.Buffer
				lastCount, _ = sess.St.SaveGlobals(&b)
			case "autosave":
				lastFile = repl.AutoSaveFile
				// force a change so AutoSave does not skip, exactly as a user input would
				sess.Input("v_touch = 1", nil)
				if err := repl.AutoSave(sess.St, opts); err != nil {
					report(&core.Violation{Oracle: "save-fails", Event: i, Sig: "C14|save-fails|" + e.Key, Detail: err.Error()})
				}
				var b bytes.Buffer
				lastCount, _ = sess.St.SaveGlobals(&b)
			}
			data, _ := os.ReadFile(lastFile)
			if bytes.Contains(data, []byte("v_touch=1\n")) {
				data = bytes.Replace(data, []byte("v_touch=1\n"), nil, 1)
				lastCount--
			}
			// one line per binding, as many lines as the count returned
			lines := strings.Split(strings.TrimSuffix(string(data), "\n"), "\n")
			if len(data) == 0 {
				lines = nil
			}
			if len(lines) != lastCount {
				report(&core.Violation{Oracle: "one-line-per-binding", Event: i, Sig: "C14|one-line-per-binding|" + e.Key,
					Detail: fmt.Sprintf("%d bindings reported, file has %d lines", lastCount, len(lines))})
			}
			for _, b := range bound {
				has := false
				for _, l := range lines {
					if strings.HasPrefix(l, b.name+"=") || strings.HasPrefix(l, "func "+b.name+"(") {
						has = true
					}
				}
				if b.tooLong && has {
					report(&core.Violation{Oracle: "overlong-value-skipped", Event: i, Sig: "C14|overlong-not-skipped", Detail: b.name + " is longer than MaxValueLen but was written"})
				}
				if !b.tooLong && !has && !corrupted {
					report(&core.Violation{Oracle: "binding-saved", Event: i, Sig: "C14|binding-missing|" + b.kind, Detail: fmt.Sprintf("%s (%s) is missing from the saved file", b.name, b.kind)})
				}
			}
			if saves > 1 && !corrupted {
				prev, cur := linesByName(lastSaved), linesByName(string(data))
				var diffs []string
				kinds := map[string]bool{}
				for _, b := range bound {
					if b.tainted || b.tooLong {
						continue
					}
					if p, ok := prev[b.name]; ok && p != cur[b.name] {
						diffs = append(diffs, fmt.Sprintf("%s: %q -> %q", b.name, trunc(p, 80), trunc(cur[b.name], 80)))
						kinds[b.kind] = true
					}
				}
				if len(diffs) > 0 {
					var ks []string
					for k := range kinds {
						ks = append(ks, k)
					}
					sort.Strings(ks)
					report(&core.Violation{Oracle: "second-save-identical", Event: i, Sig: "C14|second-save-differs|" + strings.Join(ks, "+"),
						Detail: fmt.Sprintf("saving the reloaded state gives different lines: %v", diffs)})
				}
			}
			lastSaved = string(data)
			fileBound = nil
			for _, b := range bound {
				if !b.tooLong {
					fileBound = append(fileBound, b)
				} else if len(b.calls) > 0 {
					anyTooLongFunc = true
				}
			}
			shape = append(shape, "save:"+e.Key)
		case "corrupt":
			if saves == 0 {
				continue
			}
			data, _ := os.ReadFile(lastFile)
			if len(data) == 0 {
				continue
			}
			pos := int(e.N) % len(data)
			orig := strings.SplitAfter(string(data), "\n")
			if e.Key == "garbage-line" {
				// a foreign line (what a bad block or a concurrent writer leaves) between two intact lines
				k := int(e.N) % (len(orig) + 1)
				g := c14Garbage[int(e.N/7)%len(c14Garbage)] + "\n"
				data = []byte(strings.Join(orig[:k], "") + g + strings.Join(orig[k:], ""))
				st.Fault("garbage_line_inserted")
			} else if e.Key == "truncate" {
				data = data[:pos]
				st.Fault("torn_file_truncated")
			} else {
				data[pos] ^= 0x41
				st.Fault("byte_flipped")
			}
			// intact = original lines that are still complete lines of the damaged file
			still := map[string]bool{}
			for _, l := range strings.SplitAfter(string(data), "\n") {
				still[l] = true
			}
			intact = map[string]bool{}
			for _, l := range orig {
				if still[l] && strings.HasSuffix(l, "\n") {
					intact[l] = true
				}
			}
			_ = os.WriteFile(repl.AutoSaveFile, data, 0o644)
			if os.Getenv("C14_DEBUG") != "" {
				fmt.Printf("corrupted file (pos %d):\n%s\nintact: %v\n", pos, data, intact)
			}
			lastFile = repl.AutoSaveFile
			corrupted = true
			shape = append(shape, "corrupt:"+e.Key)
		case "restart":
			sess = world.NewSession(cfg)
			st.Execs++
			bound = nil // a fresh incarnation knows nothing until it loads
			shape = append(shape, "restart")
		case "load":
			if saves == 0 {
				continue
			}
			switch {
			case e.Key == "load-ext" && lastFile == c14File+".gr":
				r := sess.Input(fmt.Sprintf("load(%q)", c14File), nil)
				if strings.HasPrefix(r.Class, "panic") {
					report(&core.Violation{Oracle: "load-panics", Event: i, Sig: "C14|load-panics|" + e.Key, Detail: fmt.Sprint(truncAll(r.Errs))})
				}
			default:
				// AutoLoad reads ./.gr: put the saved bytes there if they went elsewhere
				if lastFile != repl.AutoSaveFile {
					data, _ := os.ReadFile(lastFile)
					_ = os.WriteFile(repl.AutoSaveFile, data, 0o644)
				}
				func() {
					defer func() {
						if r := recover(); r != nil {
							sess.St.Reset()
							report(&core.Violation{Oracle: "autoload-panics", Event: i, Sig: "C14|autoload-panics", Detail: fmt.Sprintf("AutoLoad panicked: %v", r)})
						}
					}()
					_ = repl.AutoLoad(sess.St, opts)
				}()
			}
			shape = append(shape, "load:"+e.Key)
			inSess := map[string]bool{}
			for _, b := range bound {
				inSess[b.name] = true
			}
			for _, b := range fileBound {
				if !inSess[b.name] {
					bound = append(bound, b)
				}
			}
			for _, b := range fileBound {
				if corrupted {
					// only bindings whose line is intact must be restored
					ok := false
					for l := range intact { // order independent: any match sets ok
						if strings.HasPrefix(l, b.name+"=") || strings.HasPrefix(l, "func "+b.name+"(") {
							ok = true
						}
					}
					if !ok {
						continue
					}
				}
				got, _ := sess.Observe(b.name)
				if got != b.canon {
					oracle, sig := "value-roundtrip", "C14|value-changed|"+b.kind
					if corrupted {
						oracle = "intact-line-restored"
					}
					report(&core.Violation{Oracle: oracle, Event: i, Sig: sig,
						Detail: fmt.Sprintf("%s (%s): before save %s, after load %s", b.name, b.kind, trunc(b.canon, 200), trunc(got, 200))})
					b.tainted, b.canon = true, got
					continue
				}
				if len(b.calls) > 0 && !corrupted && !anyTooLongFunc {
					if res := callAll(b); strings.Join(res, "|") != strings.Join(b.results, "|") {
						report(&core.Violation{Oracle: "function-roundtrip", Event: i, Sig: "C14|function-behaviour|" + b.kind,
							Detail: fmt.Sprintf("%s: calls %v gave %v before save and %v after load", b.name, b.calls, b.results, res)})
					}
				}
			}
			if corrupted {
				break // what survived a damaged file is not followed further
			}
		}
		if st.Discarded || o.Viol != nil || (corrupted && e.Ev == "load") {
			break
		}
	}
	if o.Viol == nil {
		o.Viol = firstKnown
	}
	if st.Discarded {
		o.Viol = nil
	}
	st.Ticks = sess.W.Ticks
	st.State(lastSaved)
	st.Shape = shapeOf(shape)
	_ = filepath.Join
	return o
}

// linesByName indexes a saved file by binding name.
func linesByName(data string) map[string]string {
	out := map[string]string{}
	for _, l := range strings.Split(data, "\n") {
		if strings.HasPrefix(l, "func ") {
			if i := strings.Index(l, "("); i > 5 {
				out[l[5:i]] = l
			}
			continue
		}
		if i := strings.Index(l, "="); i > 0 {
			out[l[:i]] = l
		}
	}
	return out
}

func diffLines(a, b string) []string {
	in := map[string]bool{}
	for _, l := range strings.Split(a, "\n") {
		in[l] = true
	}
	var out []string
	for _, l := range strings.Split(b, "\n") {
		if !in[l] && !isBuiltinLine(l) {
			out = append(out, trunc(l, 80))
		}
	}
	return out
}

type c14binding struct {
	name, kind, canon string
	calls             []string
	results           []string
	tooLong           bool
	saved             bool // was bound when the last save happened
	tainted           bool // a recorded finding already changed this binding: its later lines are not judged
}

// kindsOfLines names the value kinds of the bindings whose saved lines differ.
func kindsOfLines(lines []string, bound []*c14binding) string {
	set := map[string]bool{}
	for _, l := range lines {
		for _, b := range bound {
			if strings.HasPrefix(l, b.name+"=") || strings.HasPrefix(l, "func "+b.name+"(") {
				set[b.kind] = true
			}
		}
	}
	var ks []string
	for k := range set {
		ks = append(ks, k)
	}
	sort.Strings(ks)
	return strings.Join(ks, "+")
}
