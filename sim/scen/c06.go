package scen

import (
	"fmt"
	"sort"
	"strconv"
	"strings"
	"time"

	"verifsim/core"
	"verifsim/world"
)

// C06 — arrays and maps are values: no aliasing, at any size (DESIGN 5.4).
type c06 struct{}

func init() { register(c06{}) }

func (c06) ID() string { return "C06" }

func (c06) Info() core.Info {
	return core.Info{
		Level: "exploration",
		Rule: "seeded histories of bind / copy / nest / pass-to-function / mutate / observe events over the names a,b,c (arrays), m,n (maps), h (nesting holder), executed as grol inputs on one real session: " +
			"literals (also built inside a function from outer bindings) of size 0..20 on both sides of the 8-element / 4-pair thresholds, b = a, [a, a], {\"p\": a}, mutating callee, a[i] = v, m[k] = v, m.k = v, del(m.k), a = a + [x], b = a + [x], pure a + b, m + n, slices, rest(), " +
			"for x = a { a[-1] = x }, failing operations (index out of range, wrong index type) and a deadline fault at a PRNG-chosen virtual tick inside 'a[i] = slow(v)'. " +
			"After EVERY event every live name is observed (typed canonical tree) and compared with a copy-on-bind reference model; failed operations must leave every binding unchanged; after a cancelled assignment the target holds its old or new value. " +
			"A mismatch whose signature (event kind, container kind, size class) is a recorded finding is counted and the session re-synchronised to the model, so exploration continues past known aliasing. " +
			"distinct = distinct sequence of (event kind, size class of the touched container); non-trivial = a mutation happened while a second binding of the same container value existed.",
		Real:        commonReal,
		Stubbed:     commonStubbed,
		Assumptions: []string{"value semantics (copy on bind / pass / store) is the documented behaviour the model encodes", "map keys are strings, elements are integers or nested containers"},
	}
}

func (c06) Budget(tier string) core.Budget {
	if tier == "thorough" {
		return core.Budget{Runs: 400000, WallCap: 20 * time.Minute}
	}
	return core.Budget{Runs: 15000, WallCap: 45 * time.Second}
}

var c06Sizes = []int{0, 1, 3, 4, 5, 7, 8, 9, 12, 20}

var c06Prelude = []string{
	`func muta(x, i, v) { if len(x) > 0 { x[i % len(x)] = v }; x }`,
	`func mutm(x, k, v) { x[k] = v; x }`,
	`func keep(x) { x }`,
	`func mutsha(a, i, v) { if len(a) > 0 { a[i % len(a)] = v }; len(a) }`, // parameter named like the global a
	`func mutshm(m, k, v) { m[k] = v; len(m) }`,                            // parameter named like the global m
	`func slow(v) { t := 0; for i = 40 { t = t + i }; v }`,
	`func vg9(..) { .. }`, // hands its extra arguments back as an array
}

var arrNames = []string{"a", "b", "c"}
var mapNames = []string{"m", "n"}

func (c06) Generate(r *core.Rng, run int, tier string) *core.History {
	h := &core.History{Cfg: map[string]int64{"maxdepth": 1000}, Flags: map[string]bool{}}
	h.Flags["noreg"] = r.Bool(.3)
	h.Flags["nocache"] = r.Bool(.5)
	n := 6 + r.Intn(20)
	ev := func(kind, name, key string, nn, mm int64, args ...string) {
		h.Events = append(h.Events, core.Event{Ev: kind, Name: name, Key: key, N: nn, M: mm, Args: args})
	}
	// always start with at least one array and one map
	ev("bind-arr", "a", "", int64(core.Pick(r, c06Sizes)), 0)
	ev("bind-map", "m", "", int64(core.Pick(r, c06Sizes)%11), 0)
	for i := 0; i < n; i++ {
		an, an2 := core.Pick(r, arrNames), core.Pick(r, arrNames)
		mn, mn2 := core.Pick(r, mapNames), core.Pick(r, mapNames)
		k := "k" + strconv.Itoa(r.Intn(10))
		idx := int64(r.Intn(24) - 4)
		switch c := r.Intn(33); {
		case c < 2:
			ev("bind-arr", an, "", int64(core.Pick(r, c06Sizes)), 0)
		case c < 4:
			ev("bind-map", mn, "", int64(core.Pick(r, c06Sizes)%11), 0)
		case c < 7:
			ev("copy", an, an2, 0, 0)
		case c < 9:
			ev("copy", mn, mn2, 0, 0)
		case c < 10:
			ev(core.Pick(r, []string{"nest-arr", "nest-arr", "nest-arr-func", "nest-variadic-func", "nest-variadic-func"}), "h", an, int64(r.Intn(2)), 0, an2)
		case c < 11:
			ev(core.Pick(r, []string{"nest-map", "nest-map", "nest-map-func", "nest-catch-func"}), "h", an, 0, 0, mn)
		case c < 14:
			ev("idx-assign", an, "", idx, 0)
		case c < 16:
			ev("map-set", mn, k, int64(r.Intn(2)), 0)
		case c < 18:
			ev("map-del", mn, k, int64(r.Intn(2)), 0)
		case c < 20:
			ev("append-self", an, "", 0, 0)
		case c < 22:
			ev("append-other", an, an2, 0, 0)
		case c < 23:
			ev("pure-plus", an, an2, 0, 0)
		case c < 24:
			ev("merge", mn, mn2, 0, 0, k)
		case c < 25:
			ev("call-mut-arr", an, an2, idx, int64(r.Intn(2)))
		case c < 26:
			ev("call-mut-map", mn, mn2, int64(r.Intn(2)), 0, k)
		case c < 27:
			ev("slice", an, an2, int64(r.Intn(6)), int64(r.Intn(14)))
		case c < 28:
			ev("rest", an, an2, 0, 0)
		case c < 29:
			ev("loop-mutate", an, "", 0, 0)
		case c < 32:
			switch r.Intn(4) {
			case 0:
				ev("empty-plus-map", mn, mn2, 0, 0)
			case 1:
				ev("empty-plus-arr", an, an2, 0, 0)
			case 2:
				ev("call-shadow-arr", an, "", idx, 0)
			default:
				ev("call-shadow-map", mn, k, 0, 0)
			}
		default:
			switch r.Intn(4) {
			case 0:
				ev("bad-idx", an, "", 0, 0)
			case 1:
				ev("bad-type", an, "", 0, 0)
			case 2:
				ev("keep-copy", an, an2, 0, 0)
			default:
				h.Events = append(h.Events, core.Event{Ev: "slow-assign", Name: an, N: idx, Fault: &core.Fault{Kind: "deadline", At: int64(1 + r.Intn(140))}})
			}
		}
	}
	return h
}

// c06Family groups event kinds by the mutation path they exercise (used in signatures).
func c06Family(ev string) string {
	switch ev {
	case "idx-assign", "slow-assign", "call-mut-arr", "loop-mutate", "call-shadow-arr":
		return "index-write"
	case "append-self", "append-other", "pure-plus":
		return "plus-append"
	case "map-set", "call-mut-map", "call-shadow-map":
		return "map-write"
	case "map-del":
		return "map-delete"
	}
	return ev
}

type c06world struct {
	sess  *world.Session
	model map[string]*val
	next  int64
	grp   int
}

func (w *c06world) newGroup() int { w.grp++; return w.grp }

func (w *c06world) fresh() int64 { w.next++; return 1000 + w.next }

func normIdx(i int64, n int) (int, bool) {
	if n == 0 {
		return 0, false
	}
	j := int(i % int64(n)) // the source uses i % len(x): sign follows i, negative means "from the end"
	if j < 0 {
		j += n
	}
	return j, true
}

func (c06) Execute(h *core.History) *core.Outcome {
	o := &core.Outcome{}
	st := &o.Stats
	w := &c06world{sess: world.NewSession(sessCfgOf(h)), model: map[string]*val{}}
	st.Execs = 1
	for _, p := range c06Prelude {
		w.sess.Input(p, nil)
	}
	var shape []string
	var firstKnown *core.Violation
	for i := range h.Events {
		e := &h.Events[i]
		m := w.model
		sizeBefore := map[string]string{}
		for nm, v := range m {
			sizeBefore[nm] = v.sizeClass()
		}
		src := ""
		touched := "" // name whose container the event mutates (for size class / signatures)
		var allowAlt *val
		expectErr := false
		switch e.Ev {
		case "bind-arr":
			v := &val{kind: "arr"}
			for k := int64(0); k < e.N; k++ {
				v.arr = append(v.arr, vint(w.fresh()))
			}
			m[e.Name] = v
			src = e.Name + " = " + v.src()
		case "bind-map":
			v := &val{kind: "map", m: map[string]*val{}, grp: w.newGroup()}
			for k := int64(0); k < e.N; k++ {
				v.m["k"+strconv.FormatInt(k, 10)] = vint(w.fresh())
			}
			m[e.Name] = v
			src = e.Name + " = " + v.src()
		case "copy", "keep-copy":
			sv := m[e.Key]
			if sv == nil || e.Key == e.Name {
				continue
			}
			m[e.Name] = sv.clone()
			src = e.Name + " = " + e.Key
			if e.Ev == "keep-copy" {
				src = e.Name + " = keep(" + e.Key + ")"
			}
		case "nest-arr":
			x, y := m[e.Key], m[e.Args[0]]
			if x == nil || y == nil {
				continue
			}
			m["h"] = &val{kind: "arr", arr: []*val{x.clone(), y.clone()}}
			src = "h = [" + e.Key + ", " + e.Args[0] + "]"
		case "nest-arr-func", "nest-map-func":
			// the literal is built inside a function from OUTER variables: it must hold their values, not references
			x, y := m[e.Key], m[e.Args[0]]
			if x == nil || y == nil {
				continue
			}
			if e.Ev == "nest-arr-func" {
				m["h"] = &val{kind: "arr", arr: []*val{x.clone(), y.clone(), vint(int64(len(x.arr)))}}
				src = "h = (() => [" + e.Key + ", " + e.Args[0] + ", len(" + e.Key + ")])()"
			} else {
				m["h"] = &val{kind: "map", m: map[string]*val{"p": x.clone(), "q": y.clone()}}
				src = "h = (() => { {\"p\": " + e.Key + ", \"q\": " + e.Args[0] + "} })()"
			}
		case "nest-variadic-func":
			// outer bindings passed as extra arguments of a variadic function from inside another function
			x, y := m[e.Key], m[e.Args[0]]
			if x == nil || y == nil {
				continue
			}
			m["h"] = &val{kind: "arr", arr: []*val{x.clone(), y.clone()}}
			src = "h = (() => vg9(" + e.Key + ", " + e.Args[0] + "))()"
			if e.N == 1 {
				// a trailing array literal is expanded into the extra arguments; the ones before it are still values
				f1, f2 := w.fresh(), w.fresh()
				m["h"] = &val{kind: "arr", arr: []*val{x.clone(), y.clone(), vint(f1), vint(f2)}}
				src = "h = (() => vg9(" + e.Key + ", " + e.Args[0] + ", [" + strconv.FormatInt(f1, 10) + ", " + strconv.FormatInt(f2, 10) + "]))()"
			}
		case "nest-catch-func":
			// catch() of an outer binding from inside a function: its result map must hold the value, not a reference
			x := m[e.Key]
			if x == nil {
				continue
			}
			m["h"] = &val{kind: "map", m: map[string]*val{"err": {kind: "bool"}, "value": x.clone()}}
			src = "h = (() => catch(" + e.Key + "))()"
		case "nest-map":
			x, y := m[e.Key], m[e.Args[0]]
			if x == nil || y == nil {
				continue
			}
			m["h"] = &val{kind: "map", m: map[string]*val{"p": x.clone(), "q": y.clone()}}
			src = "h = {\"p\": " + e.Key + ", \"q\": " + e.Args[0] + "}"
		case "idx-assign":
			v := m[e.Name]
			if v == nil {
				continue
			}
			touched = e.Name
			nv := w.fresh()
			j, ok := normIdx(e.N, len(v.arr))
			src = fmt.Sprintf("if len(%s) > 0 { %s[%d %% len(%s)] = %d }", e.Name, e.Name, e.N, e.Name, nv)
			if ok {
				v.arr[j] = vint(nv)
			}
		case "slow-assign":
			v := m[e.Name]
			if v == nil || len(v.arr) == 0 {
				continue
			}
			touched = e.Name
			nv := w.fresh()
			j, _ := normIdx(e.N, len(v.arr))
			src = fmt.Sprintf("%s[%d %% len(%s)] = slow(%d)", e.Name, e.N, e.Name, nv)
			allowAlt = v.clone() // old value stays acceptable if the deadline fires first
			v.arr[j] = vint(nv)
		case "map-set":
			v := m[e.Name]
			if v == nil {
				continue
			}
			touched = e.Name
			nv := w.fresh()
			v.m[e.Key] = vint(nv)
			if e.N == 0 {
				src = fmt.Sprintf("%s[%q] = %d", e.Name, e.Key, nv)
			} else {
				src = fmt.Sprintf("%s.%s = %d", e.Name, e.Key, nv)
			}
		case "map-del":
			v := m[e.Name]
			if v == nil {
				continue
			}
			touched = e.Name
			delete(v.m, e.Key)
			if e.N == 0 {
				src = fmt.Sprintf("del(%s[%q])", e.Name, e.Key)
			} else {
				src = fmt.Sprintf("del(%s.%s)", e.Name, e.Key)
			}
		case "append-self":
			v := m[e.Name]
			if v == nil {
				continue
			}
			touched = e.Name
			nv := w.fresh()
			v.arr = append(v.arr, vint(nv))
			src = fmt.Sprintf("%s = %s + [%d]", e.Name, e.Name, nv)
		case "append-other":
			sv := m[e.Key]
			if sv == nil || e.Key == e.Name {
				continue
			}
			touched = e.Key
			nv := w.fresh()
			c := sv.clone()
			c.arr = append(c.arr, vint(nv))
			m[e.Name] = c
			src = fmt.Sprintf("%s = %s + [%d]", e.Name, e.Key, nv)
		case "pure-plus":
			x, y := m[e.Name], m[e.Key]
			if x == nil || y == nil {
				continue
			}
			touched = e.Name
			src = fmt.Sprintf("println(len(%s + %s))", e.Name, e.Key)
		case "merge":
			x, y := m[e.Name], m[e.Key]
			if x == nil || y == nil {
				continue
			}
			touched = e.Key
			nv := w.fresh()
			c := y.clone()
			c.m[e.Args[0]] = vint(nv)
			res := x.clone()
			for k, vv := range c.m {
				res.m[k] = vv.clone()
			}
			res.grp = w.newGroup() // the result of + is a new map: it shares storage with neither operand
			m[e.Name] = res
			src = fmt.Sprintf("%s = %s + (%s + {%q: %d})", e.Name, e.Name, e.Key, e.Args[0], nv)
		case "call-mut-arr":
			sv := m[e.Key]
			if sv == nil {
				continue
			}
			touched = e.Key
			nv := w.fresh()
			c := sv.clone()
			if j, ok := normIdx(e.N, len(c.arr)); ok {
				c.arr[j] = vint(nv)
			}
			if e.M == 0 || e.Key == e.Name {
				src = fmt.Sprintf("muta(%s, %d, %d)", e.Key, e.N, nv) // result dropped: caller's value must not change
			} else {
				m[e.Name] = c
				src = fmt.Sprintf("%s = muta(%s, %d, %d)", e.Name, e.Key, e.N, nv)
			}
		case "call-mut-map":
			sv := m[e.Key]
			if sv == nil {
				continue
			}
			touched = e.Key
			nv := w.fresh()
			c := sv.clone()
			c.m[e.Args[0]] = vint(nv)
			if e.N == 0 || e.Key == e.Name {
				src = fmt.Sprintf("mutm(%s, %q, %d)", e.Key, e.Args[0], nv)
			} else {
				m[e.Name] = c
				src = fmt.Sprintf("%s = mutm(%s, %q, %d)", e.Name, e.Key, e.Args[0], nv)
			}
		case "slice":
			sv := m[e.Key]
			if sv == nil || e.Key == e.Name {
				continue
			}
			touched = e.Key
			l, r := int(e.N), int(e.M)
			if l > r {
				l, r = r, l
			}
			n := len(sv.arr)
			c := &val{kind: "arr"}
			for _, x := range sv.arr[min(l, n):min(r, n)] {
				c.arr = append(c.arr, x.clone())
			}
			m[e.Name] = c
			src = fmt.Sprintf("%s = %s[%d:%d]", e.Name, e.Key, l, r)
		case "rest":
			sv := m[e.Key]
			if sv == nil || e.Key == e.Name || len(sv.arr) < 2 {
				continue
			}
			touched = e.Key
			c := &val{kind: "arr"}
			for _, x := range sv.arr[1:] {
				c.arr = append(c.arr, x.clone())
			}
			m[e.Name] = c
			src = fmt.Sprintf("%s = rest(%s)", e.Name, e.Key)
		case "loop-mutate":
			v := m[e.Name]
			if v == nil || len(v.arr) == 0 {
				continue
			}
			touched = e.Name
			// iterating over a value: the loop sees the elements the array had when the loop started
			v.arr[len(v.arr)-1] = v.arr[len(v.arr)-1].clone()
			src = fmt.Sprintf("for x9 = %s { %s[-1] = x9 }", e.Name, e.Name)
		case "empty-plus-map", "empty-plus-arr":
			sv := m[e.Key]
			if sv == nil || e.Key == e.Name {
				continue
			}
			touched = e.Key
			m[e.Name] = sv.clone()
			if e.Ev == "empty-plus-map" {
				m[e.Name].grp = w.newGroup() // {} + m is a new map
				src = fmt.Sprintf("%s = {} + %s", e.Name, e.Key)
			} else {
				src = fmt.Sprintf("%s = [] + %s", e.Name, e.Key)
			}
		case "call-shadow-arr":
			// the callee's parameter has the name of the global a: it must still be a private copy
			if m[e.Name] == nil {
				continue
			}
			touched = e.Name
			src = fmt.Sprintf("mutsha(%s, %d, %d)", e.Name, e.N, w.fresh())
		case "call-shadow-map":
			if m[e.Name] == nil {
				continue
			}
			touched = e.Name
			src = fmt.Sprintf("mutshm(%s, %q, %d)", e.Name, e.Key, w.fresh())
		case "bad-idx":
			v := m[e.Name]
			if v == nil {
				continue
			}
			expectErr = true
			src = fmt.Sprintf("%s[%d] = 5", e.Name, len(v.arr)+3)
		case "bad-type":
			if m[e.Name] == nil {
				continue
			}
			expectErr = true
			src = fmt.Sprintf("%s[\"x\"] = 5", e.Name)
		default:
			continue
		}
		sc := "-"
		if touched != "" && sizeBefore[touched] != "" {
			sc = sizeBefore[touched] // representation class of the touched container BEFORE the operation
		}
		// non-trivial: the touched container value is also reachable through another binding
		res := w.sess.Input(src, e.Fault)
		if e.Fault != nil && res.Fired {
			st.Fault("deadline")
		}
		shape = append(shape, e.Ev+":"+sc+":"+res.Class)
		if expectErr && res.Class != "lang-error" && o.Viol == nil {
			o.Viol = &core.Violation{Oracle: "failed-op-reports-error", Event: i, Sig: "C06|no-error|" + e.Ev, Detail: fmt.Sprintf("%q gave %s", src, res.Class)}
			break
		}
		if !expectErr && e.Fault == nil && res.Class != "value" && o.Viol == nil {
			// every operand of this event exists in the model with the right kind: the operation is valid
			o.Viol = &core.Violation{Oracle: "valid-operation-succeeds", Event: i, Sig: "C06|valid-operation-fails|" + c06Family(e.Ev) + "|" + sc,
				Detail: fmt.Sprintf("%q gives %s %v although the model says it is a valid operation", src, res.Class, truncAll(res.Errs))}
			break
		}
		if touched != "" {
			st.Nontrivial = st.Nontrivial || len(m) > 1
		}
		// observe every live name
		names := make([]string, 0, len(m))
		for k := range m {
			names = append(names, k)
		}
		sort.Strings(names)
		var dump strings.Builder
		var viol *core.Violation
		for _, nm := range names {
			got, _ := w.sess.Observe(nm)
			want := m[nm].canon()
			dump.WriteString(nm + "=" + want + ";")
			if got == want {
				continue
			}
			if allowAlt != nil && nm == e.Name && got == allowAlt.canon() {
				m[nm] = allowAlt // the cancelled assignment did not happen: fine
				continue
			}
			kind := "alias"
			if nm == e.Name && (touched == "" || touched == e.Name) {
				kind = "wrong-result"
			} else if t := m[touched]; t != nil && t.kind == "map" && !m[nm].hasGroup(t.grp) {
				// the two bindings never shared storage on the unchanged tree (one of them came out of a +)
				kind = "alias-of-fresh-map"
			}
			ck := "arr"
			if touched != "" && m[touched] != nil {
				ck = m[touched].kind
			}
			viol = &core.Violation{Oracle: "binding-changed", Event: i,
				Sig:    fmt.Sprintf("C06|%s|%s|%s|%s", kind, ck, sc, c06Family(e.Ev)),
				Detail: fmt.Sprintf("after event #%d %q: %s reads %s, the value model says %s", i, src, nm, trunc(got, 300), trunc(want, 300))}
			break
		}
		st.State(dump.String())
		if viol != nil {
			if knownSig("C06", viol.Sig) {
				st.Probe("known_aliasing_seen")
				if firstKnown == nil {
					firstKnown = viol
				}
				// re-synchronise: rebind every name to a fresh literal of its model value
				for _, nm := range names {
					w.sess.Input(nm+" = "+m[nm].src(), nil)
				}
				continue
			}
			o.Viol = viol
			break
		}
	}
	if o.Viol == nil && firstKnown != nil && !st.Discarded {
		o.Viol = firstKnown
	}
	if st.Discarded {
		o.Viol = nil
	}
	st.Ticks = w.sess.W.Ticks
	st.Shape = shapeOf(shape)
	return o
}
