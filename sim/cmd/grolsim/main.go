// grolsim: deterministic simulation with fault injection for grol (see /verif/DESIGN.md).
//
//	grolsim run <property> <quick|thorough>     run a batch, write evidence, exit 0/1/2
//	grolsim replay <file>                       re-execute a replay file (exit 1 if it reproduces)
//	grolsim shard ...                           (internal) one worker process of a batch
//	grolsim worker <scenario> ...               (internal) child process scenarios
//	grolsim list
package main

import (
	"bufio"
	"fmt"
	"os"
	"strconv"
	"time"

	"verifsim/core"
	"verifsim/scen"
)

func main() {
	defer func() {
		if r := recover(); r != nil {
			fmt.Fprintf(os.Stderr, "grolsim: HARNESS PANIC: %v\n", r)
			panic(r)
		}
	}()
	if len(os.Args) < 2 {
		fmt.Println("usage: grolsim run|replay|list ...")
		os.Exit(2)
	}
	switch os.Args[1] {
	case "list":
		for _, id := range scen.IDs() {
			fmt.Println(id)
		}
	case "run":
		if len(os.Args) < 4 {
			os.Exit(2)
		}
		sc := scen.Get(os.Args[2])
		if sc == nil {
			fmt.Printf("grolsim: unknown property %s\n", os.Args[2])
			os.Exit(2)
		}
		os.Exit(core.RunBatch(sc, os.Args[3]))
	case "shard":
		// shard <id> <tier> <seed> <k> <K> <deadlineMs>
		sc := scen.Get(os.Args[2])
		seed, _ := strconv.ParseUint(os.Args[4], 10, 64)
		k, _ := strconv.Atoi(os.Args[5])
		K, _ := strconv.Atoi(os.Args[6])
		ms, _ := strconv.ParseInt(os.Args[7], 10, 64)
		dl := time.Time{}
		if ms > 0 {
			dl = time.UnixMilli(ms)
		}
		w := bufio.NewWriterSize(os.Stdout, 1<<16)
		core.RunShard(sc, os.Args[3], seed, k, K, dl, w)
		_ = w.Flush()
	case "one":
		// one <id> <tier> <seed> <run>: run a single index verbosely (debugging / determinism test)
		sc := scen.Get(os.Args[2])
		seed, _ := strconv.ParseUint(os.Args[4], 10, 64)
		i, _ := strconv.Atoi(os.Args[5])
		rec := core.RunOne(sc, os.Args[3], seed, i)
		core.PrintRecord(rec)
	case "replay":
		h, err := core.LoadHistory(os.Args[2])
		if err != nil {
			fmt.Printf("grolsim: cannot load %s: %v\n", os.Args[2], err)
			os.Exit(2)
		}
		sc := scen.Get(h.Prop)
		if sc == nil {
			fmt.Printf("grolsim: unknown property %s\n", h.Prop)
			os.Exit(2)
		}
		os.Exit(core.Replay(sc, h, os.Args[2]))
	case "worker":
		os.Exit(scen.Worker(os.Args[2:]))
	default:
		os.Exit(2)
	}
}
