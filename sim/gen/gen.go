// Package gen is the typed workload grammar shared by the session scenarios: it produces
// terminating, well-formed grol statements together with a symbol table, as described in
// DESIGN 2.7. Programs are built from the generator's own structure (statement texts) so the
// shrinker can drop statements without re-parsing.
package gen

import (
	"fmt"
	"strconv"
	"strings"

	"verifsim/core"
)

type Ty int

const (
	TInt Ty = iota
	TFloat
	TStr
	TBool
	TArr // array of int
	TMap // map string -> int
	numTy
	TFnArr Ty = numTy // array of one-argument integer lambdas: only ever an explicit parameter type
)

func (t Ty) String() string { return [...]string{"int", "float", "str", "bool", "arr", "map", "fnarr"}[t] }

// Flags are the swarm switches drawn per run.
type Flags struct {
	Floats, Strings, Maps, Arrays  bool
	Closures, Variadics, Recursion bool
	Slicing, IncDec                bool
	SmallArraysInFuncs             bool // arrays built inside function bodies stay <= 8 elements (C04: a cached large array is a recorded finding)
	PrintInFuncs                   bool
	Catch                          bool
	NonDet                         bool // rand / time.now / sleep
	GlobalWrites                   bool // functions may assign outer variables
	GlobalReads                    bool // functions may read outer (lower-case) variables
	Redefine                       bool // functions may be redefined (C04-sensitive)
	RedefineLeafOnly               bool // ... but only functions no other function calls (a cached caller of a redefined callee is a recorded C04 finding)
	SameTextClosures               bool // closures with equal text capturing constants/functions (C04-sensitive)
	Lambdas                        bool
	Comments                       bool
	Consts                         bool // define upper-case constants
	Marks                          bool // plant sim_mark() in loop bodies
	NoFuncLitInLoops               bool // avoid function literals inside counted loops (register rewrite limitation)
	ManyParams                     bool // functions with up to 12 parameters
	DeepLoops                      bool // loop nesting up to 6 instead of 3
	Shadow                         bool // loop variables / params reuse outer names
	BigInts                        bool
	LoopValues                     bool // loops used for their value / returning the bare loop variable
	SafeCompact                    bool // no bare-expression or ++/-- statements (their compact printed form glues to the next statement: recorded finding)
	FloatNoAssoc                   bool // float arithmetic only with - and / (the printer regroups a+(b+c) and a*(b*c): recorded finding)
	NoIndexAssign                  bool // no xs[i]=v / m.k=v / del(m.k): in-place mutation of large containers is a recorded C06 finding
}

// SwarmFlags draws a per-run feature subset.
func SwarmFlags(r *core.Rng) Flags {
	b := func(p float64) bool { return r.Bool(p) }
	return Flags{
		Floats: b(.5), Strings: b(.7), Maps: b(.6), Arrays: b(.7),
		Closures: b(.5), Variadics: b(.3), Recursion: b(.5),
		Slicing: b(.4), IncDec: b(.6), PrintInFuncs: b(.6), Catch: b(.3),
		NonDet: b(.3), GlobalWrites: b(.4), GlobalReads: b(.6), Redefine: b(.3),
		SameTextClosures: b(.3), Lambdas: b(.6), Comments: b(.2), Consts: b(.5),
		Shadow: b(.4), BigInts: b(.3), ManyParams: b(.2), DeepLoops: b(.2), LoopValues: b(.5),
	}
}

type Var struct {
	Name  string
	Ty    Ty
	Local bool // function local / parameter / loop variable
	Const bool
	RO    bool // must not be assigned (loop variables)
}

type Func struct {
	Name     string
	Params   []Var
	Ret      Ty
	Level    int
	Variadic bool
	Cost     int
	// transitive effect summary
	Prints, ReadsGlobals, WritesGlobals, NonDet bool
	IsVar                                       bool // bound through assignment (lambda / closure), not `func name`
	Calls                                       []string
	Recursive                                   bool
}

// G is the generator state (symbol table + PRNG). Clone it around speculative generation.
type G struct {
	R      *core.Rng
	F      Flags
	Vars   []Var   // globals, in definition order
	Funcs  []*Func // in level order
	scope  []Var   // locals of the function / loops being generated
	inFunc *Func   // function whose body is being generated (effects are recorded on it)
	loops  int     // current loop nesting
	nest   int     // current block nesting (if/for bodies)
	cost   int     // estimated ticks of the statement being generated
	mult   int     // loop multiplier for cost
	seq    int
	noGrow bool // inside loops/functions: values of growable types must not feed assignments (no doubling)
}

func New(r *core.Rng, f Flags) *G { return &G{R: r, F: f, mult: 1} }

func (g *G) Clone() *G {
	c := *g
	c.Vars = append([]Var(nil), g.Vars...)
	c.Funcs = make([]*Func, len(g.Funcs))
	for i, f := range g.Funcs {
		ff := *f
		c.Funcs[i] = &ff
	}
	c.scope = append([]Var(nil), g.scope...)
	for _, f := range c.Funcs {
		f.Calls = append([]string(nil), f.Calls...)
		f.Params = append([]Var(nil), f.Params...)
	}
	return &c
}

// Restore copies the state of a saved clone back (PRNG position is kept moving forward).
func (g *G) Restore(saved *G) {
	r := g.R
	*g = *saved.Clone()
	g.R = r
}

var globalNames = map[Ty][]string{
	TInt:   {"a", "b", "c", "d", "n", "cnt", "acc", "tot"},
	TFloat: {"fx", "fy", "fz"},
	TStr:   {"s", "t", "msg"},
	TBool:  {"ok", "flag"},
	TArr:   {"xs", "ys", "zs"},
	TMap:   {"m", "mp"},
}

var constNames = map[Ty][]string{
	TInt:   {"K", "LIMIT", "N_MAX"},
	TFloat: {"RATE"},
	TStr:   {"NAME"},
	TArr:   {"TABLE"},
	TMap:   {"CONF"},
}

var localNames = map[Ty][]string{
	TInt:   {"x", "y", "z", "p", "q", "u", "v", "w", "i", "j", "r1", "r2"},
	TFloat: {"f1", "f2"},
	TStr:   {"s1", "s2"},
	TBool:  {"b1", "b2"},
	TArr:   {"l1", "l2"},
	TMap:   {"m1", "m2"},
}

var funcNames = []string{"f", "g", "h", "fa", "fb", "fc", "inc", "dbl", "sum3", "step"}

func (g *G) enabled(t Ty) bool {
	switch t {
	case TFloat:
		return g.F.Floats
	case TStr:
		return g.F.Strings
	case TArr:
		return g.F.Arrays
	case TMap:
		return g.F.Maps
	}
	return true
}

func (g *G) pickTy() Ty {
	for {
		t := Ty(g.R.Intn(int(numTy)))
		if g.R.Bool(.45) {
			t = TInt
		}
		if g.enabled(t) {
			return t
		}
	}
}

// visible variables of a type (locals first, then globals if allowed here).
func (g *G) visible(t Ty, forWrite bool) []Var {
	var out []Var
	for _, v := range g.scope {
		if v.Ty == t && !(forWrite && (v.RO || v.Const)) {
			out = append(out, v)
		}
	}
	if g.inFunc != nil {
		for _, v := range g.Vars {
			if v.Ty != t {
				continue
			}
			if v.Const {
				if !forWrite {
					out = append(out, v)
				}
				continue
			}
			if forWrite && !g.F.GlobalWrites {
				continue
			}
			if !forWrite && !g.F.GlobalReads {
				continue
			}
			if shadowed(g.scope, v.Name) {
				continue
			}
			out = append(out, v)
		}
		return out
	}
	for _, v := range g.Vars {
		if v.Ty == t && !(forWrite && v.Const) && !shadowed(g.scope, v.Name) {
			out = append(out, v)
		}
	}
	return out
}

func shadowed(scope []Var, name string) bool {
	for _, v := range scope {
		if v.Name == name {
			return true
		}
	}
	return false
}

func (g *G) noteRead(v Var) {
	if g.inFunc != nil && !v.Local && !v.Const {
		g.inFunc.ReadsGlobals = true
	}
}

func (g *G) noteWrite(v Var) {
	if g.inFunc != nil && !v.Local {
		g.inFunc.WritesGlobals = true
	}
}

func (g *G) tick(n int) { g.cost += n * g.mult }

// ---------- literals ----------

var strPool = []string{"", "a", "ab", "abc", "hello", "x y", "z_9", "Q", "été", "a\"b", "back\\slash", "tab\there"}

func (g *G) IntLit() string {
	r := g.R
	switch {
	case r.Bool(.55):
		return strconv.Itoa(r.Intn(10))
	case r.Bool(.5):
		return strconv.Itoa(r.Intn(200) - 50)
	case g.F.BigInts && r.Bool(.6):
		return core.Pick(r, []string{"2147483648", "9007199254740993", "9223372036854775807", "-9223372036854775807", "4294967296", "1000000007"})
	default:
		return strconv.Itoa(r.Intn(100000))
	}
}

func wrapNeg(s string) string {
	if strings.HasPrefix(s, "-") {
		return "(" + s + ")"
	}
	return s
}

// lit0 renders a literal; under SafeCompact negative numbers are written (0 - n) so that no statement
// can start with a unary minus once the printer has dropped the parentheses.
func (g *G) negSafe(s string) string {
	if g.F.SafeCompact && strings.HasPrefix(s, "-") {
		return "(0 - " + s[1:] + ")"
	}
	return wrapNeg(s)
}

func (g *G) StrLit() string {
	return strconv.Quote(core.Pick(g.R, strPool))
}

func (g *G) FloatLit() string {
	return core.Pick(g.R, []string{"0.5", "1.25", "2.", "3.75", "0.1", "100.5", "1e3", "2.5e-3", "-0.5", "7.0"})
}

func (g *G) lit(t Ty) string {
	switch t {
	case TFnArr:
		n := 1 + g.R.Intn(3)
		parts := make([]string, n)
		for i := range parts {
			parts[i] = core.Pick(g.R, []string{"q => q + ", "q => q * ", "q => q - ", "q => q ^ "}) + strconv.Itoa(g.R.Intn(9))
		}
		return "[" + strings.Join(parts, ", ") + "]"
	case TInt:
		return g.negSafe(g.IntLit())
	case TFloat:
		return g.negSafe(g.FloatLit())
	case TStr:
		return g.StrLit()
	case TBool:
		return core.Pick(g.R, []string{"true", "false"})
	case TArr:
		n := core.Pick(g.R, []int{0, 1, 2, 3, 4, 5, 7, 8, 9, 12})
		if g.F.SmallArraysInFuncs && g.inFunc != nil {
			n = g.R.Intn(4)
		}
		parts := make([]string, n)
		for i := range parts {
			parts[i] = g.IntLit()
		}
		return "[" + strings.Join(parts, ", ") + "]"
	default:
		n := core.Pick(g.R, []int{0, 1, 2, 3, 4, 5, 6})
		keys := []string{"k0", "k1", "k2", "k3", "k4", "k5", "k6", "k7"}
		core.Shuffle(g.R, keys)
		parts := make([]string, n)
		for i := range parts {
			parts[i] = strconv.Quote(keys[i]) + ": " + g.IntLit()
		}
		return "{" + strings.Join(parts, ", ") + "}"
	}
}

// ---------- expressions ----------

func growable(t Ty) bool { return t == TStr || t == TArr || t == TMap }

func (g *G) varOf(t Ty) (string, bool) {
	if g.noGrow && growable(t) {
		return "", false
	}
	vs := g.visible(t, false)
	if len(vs) == 0 {
		return "", false
	}
	v := core.Pick(g.R, vs)
	g.noteRead(v)
	g.tick(1)
	return v.Name, true
}

// callable functions returning t at the current point (respecting levels to keep the call graph acyclic).
func (g *G) callable(t Ty) []*Func {
	var out []*Func
	lvl := 1 << 30
	if g.inFunc != nil {
		lvl = g.inFunc.Level
	}
	if g.noGrow && growable(t) {
		return nil
	}
	for _, f := range g.Funcs {
		if f.Ret == t && f.Level < lvl && f.Cost*g.mult < 6000 {
			if f.NonDet && !g.F.NonDet {
				continue
			}
			if g.loops > 0 && hasFnArrParam(f) {
				continue // a function literal inside a counted loop body is a recorded C05 finding
			}
			out = append(out, f)
		}
	}
	return out
}

func hasFnArrParam(f *Func) bool {
	for _, p := range f.Params {
		if p.Ty == TFnArr {
			return true
		}
	}
	return false
}

func (g *G) Call(f *Func, d int) string {
	args := make([]string, 0, len(f.Params)+2)
	for _, p := range f.Params {
		if f.Recursive && len(args) == 0 {
			args = append(args, strconv.Itoa(g.R.Intn(12)))
			continue
		}
		args = append(args, g.Expr(p.Ty, d+1))
	}
	if f.Variadic {
		for k := g.R.Intn(3); k > 0; k-- {
			args = append(args, g.Expr(TInt, d+2))
		}
	}
	g.tick(f.Cost + 3)
	if g.inFunc != nil {
		g.inFunc.Calls = append(g.inFunc.Calls, f.Name)
		g.inFunc.Prints = g.inFunc.Prints || f.Prints
		g.inFunc.ReadsGlobals = g.inFunc.ReadsGlobals || f.ReadsGlobals
		g.inFunc.WritesGlobals = g.inFunc.WritesGlobals || f.WritesGlobals
		g.inFunc.NonDet = g.inFunc.NonDet || f.NonDet
	}
	return f.Name + "(" + strings.Join(args, ", ") + ")"
}

// Expr generates an expression of type t; d is the current depth.
func (g *G) Expr(t Ty, d int) string {
	r := g.R
	g.tick(1)
	if t == TFnArr {
		return g.lit(t)
	}
	if d >= 3 || r.Bool(.3) {
		if v, ok := g.varOf(t); ok && r.Bool(.7) {
			if t == TBool {
				// a bare reference to an outer boolean is not accepted as a condition inside functions
				// (evalIfExpression compares the un-dereferenced reference); compare explicitly instead.
				return "(" + v + " == true)"
			}
			return v
		}
		return g.lit(t)
	}
	if fs := g.callable(t); len(fs) > 0 && r.Bool(.3) {
		return g.Call(core.Pick(r, fs), d)
	}
	switch t {
	case TInt:
		switch r.Intn(13) {
		case 0, 1, 2:
			return "(" + g.Expr(TInt, d+1) + " " + core.Pick(r, []string{"+", "-", "*"}) + " " + g.Expr(TInt, d+1) + ")"
		case 3:
			return "(" + g.Expr(TInt, d+1) + " " + core.Pick(r, []string{"%", "/"}) + " " + strconv.Itoa(r.Intn(9)+1) + ")"
		case 4:
			return "(" + g.Expr(TInt, d+1) + " " + core.Pick(r, []string{"<<", ">>"}) + " " + strconv.Itoa(r.Intn(9)) + ")"
		case 5:
			return "(" + g.Expr(TInt, d+1) + " " + core.Pick(r, []string{"&", "|", "^"}) + " " + g.Expr(TInt, d+1) + ")"
		case 6:
			if g.F.SafeCompact {
				return "(0 - " + g.Expr(TInt, d+1) + ")"
			}
			return "(-" + g.Expr(TInt, d+1) + ")"
		case 7:
			if ct := core.Pick(r, []Ty{TStr, TArr, TMap}); g.enabled(ct) {
				return "len(" + g.Expr(ct, d+1) + ")"
			}
		case 8:
			if g.F.Arrays {
				return "int(" + g.Expr(TArr, d+1) + "[" + g.Expr(TInt, d+2) + " % 5])"
			}
		case 9:
			if g.F.Maps {
				k := "k" + strconv.Itoa(r.Intn(8))
				if is := g.visible(TInt, false); len(is) > 0 && r.Bool(.25) {
					// an integer variable (possibly living in a register) as key, or its NAME as field name
					iv := core.Pick(r, is)
					if r.Bool(.5) {
						return "int(" + g.Expr(TMap, d+1) + "." + iv.Name + ")"
					}
					g.noteRead(iv)
					return "int(" + g.Expr(TMap, d+1) + "[" + iv.Name + "])"
				}
				if r.Bool(.5) {
					return "int(" + g.Expr(TMap, d+1) + "." + k + ")"
				}
				return "int(" + g.Expr(TMap, d+1) + "[" + strconv.Quote(k) + "])"
			}
		case 10:
			return "(if " + g.Expr(TBool, d+1) + " {" + g.Expr(TInt, d+1) + "} else {" + g.Expr(TInt, d+1) + "})"
		case 11:
			if g.F.NonDet && r.Bool(.5) {
				if g.inFunc != nil {
					g.inFunc.NonDet = true
				}
				return "rand(" + strconv.Itoa(r.Intn(50)+2) + ")"
			}
		case 12:
			return "(~" + g.Expr(TInt, d+1) + ")"
		}
		return "(" + g.Expr(TInt, d+1) + " + " + g.Expr(TInt, d+1) + ")"
	case TBool:
		switch r.Intn(6) {
		case 0, 1, 2:
			return "(" + g.Expr(TInt, d+1) + " " + core.Pick(r, []string{"<", "<=", ">", ">=", "==", "!="}) + " " + g.Expr(TInt, d+1) + ")"
		case 3:
			return "(!" + g.Expr(TBool, d+1) + ")"
		case 4:
			return "(" + g.Expr(TBool, d+1) + " " + core.Pick(r, []string{"&&", "||"}) + " " + g.Expr(TBool, d+1) + ")"
		default:
			if g.F.Strings {
				return "(" + g.Expr(TStr, d+1) + " " + core.Pick(r, []string{"==", "<", "!="}) + " " + g.Expr(TStr, d+1) + ")"
			}
			return g.lit(TBool)
		}
	case TStr:
		switch r.Intn(5) {
		case 0, 1:
			return "(" + g.Expr(TStr, d+1) + " + " + g.Expr(TStr, d+1) + ")"
		case 2:
			return "(" + g.Expr(TStr, d+1) + " * " + strconv.Itoa(r.Intn(4)) + ")"
		case 3:
			return "str(" + g.Expr(TInt, d+1) + ")"
		default:
			if g.F.Slicing {
				return g.Expr(TStr, d+1) + "[0:" + strconv.Itoa(r.Intn(4)) + "]"
			}
			return g.lit(TStr)
		}
	case TFloat:
		if g.F.NonDet && r.Bool(.2) {
			if g.inFunc != nil {
				g.inFunc.NonDet = true
			}
			return "time.now()"
		}
		switch r.Intn(4) {
		case 0, 1:
			ops := []string{"+", "-", "*", "/"}
			if g.F.FloatNoAssoc {
				ops = []string{"-", "/"}
			}
			return "(" + g.Expr(TFloat, d+1) + " " + core.Pick(r, ops) + " " + g.Expr(TFloat, d+1) + ")"
		case 2:
			ops := []string{"+", "*"}
			if g.F.FloatNoAssoc {
				ops = []string{"-"}
			}
			return "(" + g.Expr(TFloat, d+1) + " " + core.Pick(r, ops) + " " + g.Expr(TInt, d+1) + ")"
		default:
			return "sqrt(" + g.lit(TFloat) + " * " + g.lit(TFloat) + ")"
		}
	case TArr:
		if g.F.SmallArraysInFuncs && g.inFunc != nil {
			switch r.Intn(4) {
			case 0:
				return "(" + g.lit(TArr) + " + " + g.lit(TArr) + ")" // <= 6 elements
			case 1:
				return "(" + g.lit(TArr) + " + [" + g.Expr(TInt, d+1) + "])"
			case 2:
				return "([" + g.Expr(TInt, d+1) + "] * " + strconv.Itoa(r.Intn(4)) + ")"
			}
			return g.lit(TArr)
		}
		switch r.Intn(5) {
		case 0:
			return "(" + g.Expr(TArr, d+1) + " + " + g.Expr(TArr, d+1) + ")"
		case 1:
			return "(" + g.Expr(TArr, d+1) + " + [" + g.Expr(TInt, d+1) + "])"
		case 2:
			if g.F.Slicing {
				return g.Expr(TArr, d+1) + "[0:" + strconv.Itoa(r.Intn(10)) + "]"
			}
		case 3:
			return "([" + g.Expr(TInt, d+1) + "] * " + strconv.Itoa(r.Intn(11)) + ")"
		}
		return g.lit(TArr)
	default: // TMap
		if r.Bool(.4) {
			return "(" + g.Expr(TMap, d+1) + " + " + g.Expr(TMap, d+1) + ")"
		}
		return g.lit(TMap)
	}
}

// ---------- statements ----------

func (g *G) freshName(t Ty, local bool) (string, bool) {
	pool := globalNames[t]
	if local {
		pool = localNames[t]
	}
	var free []string
	for _, n := range pool {
		if shadowed(g.scope, n) {
			continue
		}
		if !local && g.hasGlobal(n) {
			continue
		}
		free = append(free, n)
	}
	if len(free) == 0 {
		return "", false
	}
	return core.Pick(g.R, free), true
}

func (g *G) hasGlobal(n string) bool {
	for _, v := range g.Vars {
		if v.Name == n {
			return true
		}
	}
	return false
}

func (g *G) assign() string {
	t := g.pickTy()
	local := g.inFunc != nil || g.loops > 0 && g.R.Bool(.0)
	// write an existing variable?
	if ws := g.visible(t, true); len(ws) > 0 && g.R.Bool(.55) {
		v := core.Pick(g.R, ws)
		g.noteWrite(v)
		g.tick(2)
		return v.Name + " = " + g.rhs(t)
	}
	name, ok := g.freshName(t, local)
	if !ok {
		return g.printStmt()
	}
	e := g.rhs(t)
	g.tick(2)
	if local {
		g.scope = append(g.scope, Var{Name: name, Ty: t, Local: true})
		return name + " := " + e
	}
	if g.nest > 0 {
		// conditionally executed: visible only until the end of the enclosing block
		g.scope = append(g.scope, Var{Name: name, Ty: t})
		return name + " = " + e
	}
	g.Vars = append(g.Vars, Var{Name: name, Ty: t})
	return name + " = " + e
}

// rhs generates the right-hand side of an assignment. Where the assignment can execute repeatedly
// (loops, function bodies) a growable value (string/array/map) never depends on growable variables,
// so nothing can double per iteration (string '+' has no memory guard in grol).
func (g *G) rhs(t Ty) string {
	if growable(t) && (g.loops > 0 || g.inFunc != nil) {
		old := g.noGrow
		g.noGrow = true
		defer func() { g.noGrow = old }()
	}
	return g.Expr(t, 0)
}

func (g *G) printStmt() string {
	if g.inFunc != nil {
		if !g.F.PrintInFuncs {
			return g.bare(g.Expr(TInt, 1))
		}
		g.inFunc.Prints = true
	}
	n := 1 + g.R.Intn(2)
	parts := make([]string, n)
	for i := range parts {
		parts[i] = g.Expr(g.pickTy(), 1)
	}
	g.tick(2)
	return core.Pick(g.R, []string{"println", "println", "print"}) + "(" + strings.Join(parts, ", ") + ")"
}

// bare turns an expression into a statement.
func (g *G) bare(e string) string {
	if g.F.SafeCompact {
		g.seq++
		if g.inFunc != nil || g.nest > 0 {
			return "u" + strconv.Itoa(g.seq) + " := " + e
		}
		return "u" + strconv.Itoa(g.seq) + " = " + e
	}
	return e
}

func (g *G) incdec() string {
	if ws := g.visible(TInt, true); len(ws) > 0 && g.F.IncDec && !g.F.SafeCompact {
		v := core.Pick(g.R, ws)
		g.noteWrite(v)
		g.noteRead(v)
		g.tick(2)
		if g.R.Bool(.5) {
			return v.Name + core.Pick(g.R, []string{"++", "--"})
		}
		return core.Pick(g.R, []string{"++", "--"}) + v.Name
	}
	return g.assign()
}

func (g *G) indexAssign() string {
	if g.F.NoIndexAssign {
		return g.assign()
	}
	if g.F.Maps && g.R.Bool(.5) {
		if ws := g.visible(TMap, true); len(ws) > 0 {
			v := core.Pick(g.R, ws)
			g.noteWrite(v)
			g.noteRead(v)
			k := "k" + strconv.Itoa(g.R.Intn(8))
			g.tick(3)
			switch g.R.Intn(4) {
			case 3:
				// integer key taken from a bare variable (a loop variable or integer parameter lives in a register),
				// or a field named like such a variable
				if is := g.visible(TInt, false); len(is) > 0 {
					iv := core.Pick(g.R, is)
					switch g.R.Intn(4) {
					case 0:
						return v.Name + "." + iv.Name + " = " + g.Expr(TInt, 1)
					case 1:
						return "del(" + v.Name + "." + iv.Name + ")"
					}
					g.noteRead(iv)
					return v.Name + "[" + iv.Name + "] = " + g.Expr(TInt, 1)
				}
				return v.Name + "[" + strconv.Itoa(g.R.Intn(8)) + "] = " + g.Expr(TInt, 1)
			case 0:
				return v.Name + "." + k + " = " + g.Expr(TInt, 1)
			case 1:
				return v.Name + "[" + strconv.Quote(k) + "] = " + g.Expr(TInt, 1)
			default:
				return "del(" + v.Name + "." + k + ")"
			}
		}
	}
	if g.F.Arrays {
		if ws := g.visible(TArr, true); len(ws) > 0 {
			v := core.Pick(g.R, ws)
			g.noteWrite(v)
			g.noteRead(v)
			g.tick(6)
			return "if len(" + v.Name + ") > 0 { " + v.Name + "[" + g.Expr(TInt, 2) + " % len(" + v.Name + ")] = " + g.Expr(TInt, 1) + " }"
		}
	}
	return g.assign()
}

func (g *G) block(n int, allowCtl bool) string {
	mark := len(g.scope)
	g.nest++
	defer func() { g.nest-- }()
	parts := make([]string, 0, n+1)
	if g.F.Marks && g.loops > 0 {
		parts = append(parts, "sim_mark()")
	}
	for i := 0; i < n; i++ {
		parts = append(parts, g.Stmt(allowCtl))
	}
	g.scope = g.scope[:mark]
	return "{ " + strings.Join(parts, "; ") + " }"
}

func (g *G) ifStmt(allowCtl bool) string {
	s := "if " + g.Expr(TBool, 1) + " " + g.block(1+g.R.Intn(2), allowCtl)
	if g.R.Bool(.5) {
		s += " else " + g.block(1+g.R.Intn(2), allowCtl)
	}
	return s
}

func (g *G) maxLoops() int {
	if g.F.DeepLoops {
		return 6
	}
	return 3
}

func (g *G) loopVarName() string {
	// Every counted loop gets a name used nowhere else ("lv<n>"): with registers disabled the loop
	// variable is an ordinary binding of the enclosing scope (visible after the loop, clobbering an
	// outer variable of that name), with registers enabled it is not -- a recorded finding of C05.
	// Keeping the names unique keeps that known divergence out of every other oracle.
	g.seq++
	return "lv" + strconv.Itoa(g.seq)
}

func (g *G) forStmt() string {
	r := g.R
	g.loops++
	oldMult := g.mult
	mark := len(g.scope)
	defer func() { g.loops--; g.mult = oldMult; g.scope = g.scope[:mark] }()
	bound := r.Intn(6)
	if g.loops > 2 {
		bound = r.Intn(3)
	}
	g.mult *= max(bound, 1)
	nb := 1 + r.Intn(2)
	// a named counted loop left by an error that catch() turns into a value in the SAME environment
	// (the enclosing loops and the rest of the function keep running on that environment's registers)
	caught := func(v string, lo int, loop string) string {
		if !g.F.Catch || !r.Bool(.15) {
			return loop
		}
		head, body, _ := strings.Cut(loop, " { ")
		return "catch(" + head + " { if " + v + " == " + strconv.Itoa(lo+r.Intn(max(bound, 1))) + " { error(\"boom\") }; " + body + ")"
	}
	switch r.Intn(6) {
	case 0: // for N {}
		return "for " + strconv.Itoa(bound) + " " + g.block(nb, true)
	case 1, 2: // for i = N {}
		v := g.loopVarName()
		g.pushLoopVar(v)
		return caught(v, 0, "for "+v+" = "+strconv.Itoa(bound)+" "+g.block(nb, true))
	case 3: // for i = a:b {}
		v := g.loopVarName()
		g.pushLoopVar(v)
		lo := r.Intn(4) - 1
		return caught(v, lo, "for "+v+" = "+strconv.Itoa(lo)+":"+strconv.Itoa(lo+bound)+" "+g.block(nb, true))
	case 4: // for x = list {}
		if g.F.Arrays {
			v := g.loopVarName()
			list := g.Expr(TArr, 2)
			g.mult = oldMult * 6
			g.pushLoopVar(v)
			return "for " + v + " = " + list + " " + g.block(nb, true)
		}
		fallthrough
	default: // for cond {} with a decremented counter
		g.seq++
		c := "w" + strconv.Itoa(g.seq)
		def := c + " := " + strconv.Itoa(bound)
		if g.inFunc == nil && g.loops == 1 && g.nest == 0 {
			def = c + " = " + strconv.Itoa(bound)
			g.Vars = append(g.Vars, Var{Name: c, Ty: TInt, RO: true})
		}
		g.scope = append(g.scope, Var{Name: c, Ty: TInt, Local: true, RO: true})
		body := g.block(nb, false) // no break/continue: the decrement must run
		body = "{ " + c + " = " + c + " - 1; " + strings.TrimPrefix(body, "{ ")
		return def + "; for " + c + " > 0 " + body
	}
}

func (g *G) pushLoopVar(v string) {
	// a loop variable is an int readable in the body; never assigned by generated code.
	for i := range g.scope {
		if g.scope[i].Name == v {
			return
		}
	}
	g.scope = append(g.scope, Var{Name: v, Ty: TInt, Local: true, RO: true})
}

// Stmt generates one statement valid at the current point.
func (g *G) Stmt(allowCtl bool) string {
	r := g.R
	if g.cost > 15000 {
		return g.bare(g.Expr(TInt, 3))
	}
	if g.inFunc == nil && g.nest == 0 && g.F.GlobalWrites && r.Bool(.06) {
		return "tmpv" + strconv.Itoa(r.Intn(2)) + " = " + strconv.Itoa(r.Intn(9)) // (re)creates what del()-functions remove
	}
	if g.loops == 0 && g.F.LoopValues && r.Bool(.08) {
		// a counted loop used for its value: the value is the bare loop variable of the last iteration
		v := g.loopVarName()
		lo := r.Intn(3)
		loop := fmt.Sprintf("for %s = %d:%d { %s }", v, lo, lo+1+r.Intn(5), v)
		switch r.Intn(4) {
		case 0:
			// left by break: the value is the one of the previous iteration
			loop = fmt.Sprintf("for %s = %d:%d { if %s == %d { break }; %s }", v, lo, lo+3+r.Intn(4), v, lo+2, v)
		case 1:
			// two loop values alive at once: the second loop reuses the slot of the first
			v2 := g.loopVarName()
			loop = fmt.Sprintf("(for %s = %d { %s }) + (for %s = %d { %s })", v, 2+r.Intn(3), v, v2, 6+r.Intn(5), v2)
		case 2:
			// the caught value of the bare loop variable, read after the loop moved on
			loop = fmt.Sprintf("(() => { rc9 := nil; for %s = %d { if %s == 1 { rc9 = catch(%s) } }; rc9.value })()", v, 3+r.Intn(3), v, v)
			if g.loops > 0 {
				loop = "0"
			}
		}
		if g.inFunc != nil {
			g.seq++
			return "u" + strconv.Itoa(g.seq) + " := " + loop
		}
		return "println(" + loop + ")"
	}
	switch k := r.Intn(20); {
	case k < 5:
		return g.assign()
	case k < 8:
		return g.printStmt()
	case k < 10:
		return g.incdec()
	case k < 12:
		return g.indexAssign()
	case k < 14:
		return g.ifStmt(allowCtl)
	case k < 16:
		if g.loops < g.maxLoops() {
			return g.forStmt()
		}
		return g.assign()
	case k < 17:
		if allowCtl && g.loops > 0 {
			return "if " + g.Expr(TBool, 2) + " { " + core.Pick(r, []string{"break", "continue"}) + " }"
		}
		return g.printStmt()
	case k < 18:
		if g.inFunc != nil && g.F.LoopValues && g.inFunc.Ret == TInt && g.loops > 0 && r.Bool(.5) {
			for i := len(g.scope) - 1; i >= 0; i-- {
				if g.scope[i].RO && strings.HasPrefix(g.scope[i].Name, "lv") {
					return "if " + g.Expr(TBool, 2) + " { return " + g.scope[i].Name + " }"
				}
			}
		}
		if g.inFunc != nil && r.Bool(.6) {
			return "if " + g.Expr(TBool, 2) + " { return " + g.Expr(g.inFunc.Ret, 1) + " }"
		}
		return g.assign()
	default:
		// call for effect
		var all []*Func
		for t := Ty(0); t < numTy; t++ {
			all = append(all, g.callable(t)...)
		}
		if len(all) > 0 {
			return g.Call(core.Pick(r, all), 1)
		}
		return g.printStmt()
	}
}

// ---------- functions ----------

func (g *G) newFuncName() (string, bool) {
	var free []string
	for _, n := range funcNames {
		used := false
		for _, f := range g.Funcs {
			if f.Name == n {
				used = true
			}
		}
		if !used {
			free = append(free, n)
		}
	}
	if len(free) == 0 {
		return "", false
	}
	return free[0], true
}

func (g *G) genParams(f *Func) {
	n := g.R.Intn(4)
	if g.F.ManyParams && g.R.Bool(.5) {
		n = g.R.Intn(13)
	}
	used := map[string]bool{}
	for i := 0; i < n; i++ {
		t := g.pickTy()
		if g.R.Bool(.5) {
			t = TInt
		}
		var name string
		for _, c := range localNames[t] {
			if !used[c] {
				name = c
				break
			}
		}
		if name == "" {
			name = "a" + strconv.Itoa(i)
			t = TInt
		}
		if g.F.Shadow && t == TInt && g.R.Bool(.25) {
			// shadow a global int name
			for _, v := range g.Vars {
				if v.Ty == TInt && !v.Const && !used[v.Name] && !v.RO {
					name = v.Name
					break
				}
			}
		}
		used[name] = true
		f.Params = append(f.Params, Var{Name: name, Ty: t, Local: true})
	}
}

func (g *G) body(f *Func) string {
	oldScope, oldIn, oldLoops, oldCost, oldMult, oldNest := g.scope, g.inFunc, g.loops, g.cost, g.mult, g.nest
	g.scope = append([]Var(nil), f.Params...)
	g.inFunc, g.loops, g.cost, g.mult, g.nest = f, 0, 0, 1, 0
	n := g.R.Intn(4)
	parts := make([]string, 0, n+1)
	for i := 0; i < n; i++ {
		parts = append(parts, g.Stmt(false))
	}
	parts = append(parts, g.Expr(f.Ret, 0))
	f.Cost = g.cost + 5
	g.scope, g.inFunc, g.loops, g.cost, g.mult, g.nest = oldScope, oldIn, oldLoops, oldCost, oldMult, oldNest
	return strings.Join(parts, "; ")
}

func paramList(f *Func) string {
	ns := make([]string, 0, len(f.Params)+1)
	for _, p := range f.Params {
		ns = append(ns, p.Name)
	}
	if f.Variadic {
		ns = append(ns, "..")
	}
	return strings.Join(ns, ", ")
}

// FuncDef defines a new function (or redefines an existing one when allowed) and returns its source.
func (g *G) FuncDef() string {
	r := g.R
	if g.F.Redefine && len(g.Funcs) > 0 && r.Bool(.35) {
		// redefinition keeps name, parameters, return type and level (call graph stays acyclic)
		old := core.Pick(r, g.Funcs)
		if !old.IsVar && !old.Recursive && !(g.F.RedefineLeafOnly && g.hasCaller(old.Name)) {
			nf := &Func{Name: old.Name, Params: old.Params, Ret: old.Ret, Level: old.Level, Variadic: old.Variadic}
			src := "func " + nf.Name + "(" + paramList(nf) + ") { " + g.body(nf) + " }"
			nf.Prints, nf.ReadsGlobals, nf.WritesGlobals, nf.NonDet = nf.Prints || old.Prints, nf.ReadsGlobals || old.ReadsGlobals, nf.WritesGlobals || old.WritesGlobals, nf.NonDet || old.NonDet
			*old = *nf
			g.propagate()
			return src
		}
	}
	name, ok := g.newFuncName()
	if !ok {
		return g.Stmt(false)
	}
	f := &Func{Name: name, Ret: g.pickTy(), Level: len(g.Funcs) + 1}
	if r.Bool(.6) {
		f.Ret = TInt
	}
	switch {
	case g.F.Recursion && r.Bool(.2):
		// recursion on a dedicated strictly decreasing integer parameter
		f.Params = []Var{{Name: "x", Ty: TInt, Local: true}}
		f.Ret, f.Recursive, f.Cost = TInt, true, 150
		g.Funcs = append(g.Funcs, f)
		base, step := r.Intn(3), 1+r.Intn(2)
		op := core.Pick(r, []string{"+", "*", "^"})
		if g.F.GlobalReads && r.Bool(.3) {
			// the base case (deepest frame) reads / bumps a global: an outer access many frames below the first call
			if ws := g.visible(TInt, false); len(ws) > 0 {
				v := core.Pick(r, ws)
				if !v.Local && !v.Const && !v.RO {
					f.ReadsGlobals = true
					touch := v.Name
					if g.F.GlobalWrites && r.Bool(.5) {
						f.WritesGlobals = true
						touch = v.Name + "++"
					}
					if r.Bool(.4) {
						// EVERY frame reads the global once (in its guard): a callee frame finds the reference its caller's frame made
						return fmt.Sprintf("func %s(x) { if x <= %s %% 3 { return %d }; 1 + %s(x - %d) }", name, v.Name, base, name, step)
					}
					return fmt.Sprintf("func %s(x) { if x <= %d { return %s }; x %s %s(x - %d) }", name, base, touch, op, name, step)
				}
			}
		}
		pr := ""
		if g.F.PrintInFuncs && r.Bool(.3) {
			pr = "print(x, \" \"); "
			f.Prints = true
		}
		return fmt.Sprintf("func %s(x) { %sif x <= %d { return %d }; x %s %s(x - %d) }", name, pr, base, 1+r.Intn(3), op, name, step)
	case g.F.Variadics && r.Bool(.2):
		f.Variadic = true
		f.Params = []Var{{Name: "x", Ty: TInt, Local: true}}
		f.Ret = TInt
		g.Funcs = append(g.Funcs, f)
		f.Cost = 12
		return fmt.Sprintf("func %s(x, ..) { x + len(..) * %d }", name, 1+r.Intn(5))
	case g.F.Catch && g.F.GlobalReads && r.Bool(.2):
		// a callee that fails depending on outer state, and a caller that swallows the failure with catch()
		if gv, ok := g.varOf(TInt); ok && !shadowed(g.scope, gv) {
			f.Ret, f.Cost, f.ReadsGlobals = TInt, 30, true
			g.Funcs = append(g.Funcs, f)
			inner := "chk_" + name
			mod := 2 + r.Intn(2)
			return fmt.Sprintf("%s = func() { if %s %% %d == 0 { error(\"unlucky\", %s) }; %s }; func %s() { r9 := catch(%s()); if r9.err { 0 - 1 } else { r9.value * 2 } }", inner, gv, mod, gv, gv, name, inner)
		}
		fallthrough
	case g.F.GlobalWrites && g.F.GlobalReads && r.Bool(.1):
		// deleting an outer binding from inside a function (whether it exists or not varies over the session)
		tv := "tmpv" + strconv.Itoa(r.Intn(2))
		if g.F.Catch && r.Bool(.5) {
			// ... or reading it under catch(): "identifier not found" now, a value once the name is (re)created
			f.Ret, f.Cost, f.ReadsGlobals = TInt, 10, true
			g.Funcs = append(g.Funcs, f)
			if g.F.IncDec && r.Bool(.4) {
				f.WritesGlobals = true
				return fmt.Sprintf("func %s() { r9 := catch(%s++); if r9.err { 0 - 1 } else { 1 } }", name, tv)
			}
			return fmt.Sprintf("func %s() { r9 := catch(%s + %d); if r9.err { 0 - 1 } else { r9.value } }", name, tv, r.Intn(5))
		}
		f.Ret, f.Cost, f.ReadsGlobals, f.WritesGlobals = TBool, 10, true, true
		g.Funcs = append(g.Funcs, f)
		return fmt.Sprintf("func %s() { del(%s) }", name, tv)
	case g.F.Closures && r.Bool(.25):
		return g.closureDef(f)
	case g.F.Lambdas && g.F.Arrays && r.Bool(.12):
		// an integer parameter used inside a computed callee (fs[i](..)) and as plain operand
		f.Params = []Var{{Name: "fs", Ty: TFnArr, Local: true}, {Name: "x", Ty: TInt, Local: true}, {Name: "y", Ty: TInt, Local: true}}
		f.Ret, f.Cost = TInt, 25
		g.Funcs = append(g.Funcs, f)
		return fmt.Sprintf("func %s(fs, x, y) { fs[x %% len(fs)](y) + fs[(y + %d) %% len(fs)](x) + x }", name, r.Intn(3))
	}
	g.genParams(f)
	g.Funcs = append(g.Funcs, f)
	if g.F.Lambdas && r.Bool(.35) {
		f.IsVar = true
		if len(f.Params) == 1 && r.Bool(.5) {
			return name + " = " + f.Params[0].Name + " => { " + g.body(f) + " }"
		}
		if r.Bool(.5) {
			return name + " = (" + paramList(f) + ") => { " + g.body(f) + " }"
		}
		return name + " = func(" + paramList(f) + ") { " + g.body(f) + " }"
	}
	return "func " + name + "(" + paramList(f) + ") { " + g.body(f) + " }"
}

// closureDef makes a factory and binds one or two closures from it.
func (g *G) closureDef(f *Func) string {
	r := g.R
	mk := "mk_" + f.Name
	f.Params = []Var{{Name: "x", Ty: TInt, Local: true}}
	f.Ret, f.IsVar, f.Cost = TInt, true, 10
	g.Funcs = append(g.Funcs, f)
	capName := "n"
	captured := g.IntLit()
	if g.F.GlobalReads && r.Bool(.35) {
		// the inner function reads a global that is two environments above its call frame
		if gv, ok := g.varOf(TInt); ok && !shadowed(g.scope, gv) {
			f.ReadsGlobals = true
			op := core.Pick(r, []string{"+", "*", "-"})
			inner := fmt.Sprintf("func(x) { x %s %s }", op, gv)
			if r.Bool(.4) {
				inner = fmt.Sprintf("func(x) { (y => y %s %s)(x) }", op, gv) // three levels
			}
			return fmt.Sprintf("%s = func() { %s }; %s = %s()", mk, inner, f.Name, mk)
		}
	}
	if g.F.SameTextClosures && r.Bool(.6) {
		capName = "N"
	} else {
		f.ReadsGlobals = true // lower-case captures behave like outer reads for purity purposes
	}
	op := core.Pick(r, []string{"+", "*", "-"})
	src := fmt.Sprintf("%s = func(%s) { func(x) { x %s %s } }; %s = %s(%s)", mk, capName, op, capName, f.Name, mk, wrapNeg(captured))
	if name2, ok := g.newFuncName(); ok && r.Bool(.6) {
		f2 := *f
		f2.Name, f2.Level = name2, len(g.Funcs)+1
		g.Funcs = append(g.Funcs, &f2)
		src += fmt.Sprintf("; %s = %s(%s)", name2, mk, wrapNeg(g.IntLit()))
	}
	return src
}

func (g *G) hasCaller(name string) bool {
	for _, f := range g.Funcs {
		for _, c := range f.Calls {
			if c == name {
				return true
			}
		}
	}
	return false
}

// propagate recomputes transitive effects after a redefinition (conservative: effects only grow).
func (g *G) propagate() {
	byName := map[string]*Func{}
	for _, f := range g.Funcs {
		byName[f.Name] = f
	}
	for changed := true; changed; {
		changed = false
		for _, f := range g.Funcs {
			for _, cn := range f.Calls {
				c := byName[cn]
				if c == nil {
					continue
				}
				p, rg, wg, nd := f.Prints || c.Prints, f.ReadsGlobals || c.ReadsGlobals, f.WritesGlobals || c.WritesGlobals, f.NonDet || c.NonDet
				if p != f.Prints || rg != f.ReadsGlobals || wg != f.WritesGlobals || nd != f.NonDet {
					f.Prints, f.ReadsGlobals, f.WritesGlobals, f.NonDet = p, rg, wg, nd
					changed = true
				}
			}
		}
	}
}

// ConstDef defines an upper-case constant.
func (g *G) ConstDef() (string, bool) {
	t := core.Pick(g.R, []Ty{TInt, TInt, TFloat, TStr, TArr, TMap})
	if !g.enabled(t) {
		t = TInt
	}
	for _, n := range constNames[t] {
		if !g.hasGlobal(n) {
			g.Vars = append(g.Vars, Var{Name: n, Ty: t, Const: true})
			return n + " = " + g.lit(t), true
		}
	}
	return "", false
}

// TopInput generates one input of n top-level statements. Statement costs are bounded so the
// whole input stays well under the tick budget.
func (g *G) TopInput(n int) []string {
	out := make([]string, 0, n)
	g.cost, g.mult = 0, 1
	for i := 0; i < n; i++ {
		r := g.R
		switch {
		case r.Bool(.22) || (len(g.Funcs) == 0 && r.Bool(.5)):
			out = append(out, g.FuncDef())
		case g.F.Consts && r.Bool(.08):
			if s, ok := g.ConstDef(); ok {
				out = append(out, s)
				continue
			}
			fallthrough
		default:
			s := g.Stmt(false)
			if g.F.Comments && r.Bool(.3) {
				s += " // " + core.Pick(r, []string{"note", "x = 1", "TODO: nothing"})
			}
			out = append(out, s)
		}
	}
	return out
}

// PureFuncs lists functions safe to call from side-effect-free failing inputs.
func (g *G) PureFuncs() []*Func {
	var out []*Func
	for _, f := range g.Funcs {
		if !f.WritesGlobals && !f.NonDet {
			out = append(out, f)
		}
	}
	return out
}
