#!/bin/bash
# check.sh <property> <quick|thorough>   run the check of one property (exit 0 / 1 VIOLATION / 2 harness trouble)
# check.sh replay <file>                 re-execute a replay file
# Always rebuilds grolsim against /repo's current working tree with -tags verif.
set -u
HERE=$(cd "$(dirname "$0")" && pwd)
export VERIF_HOME="$HERE"
export GOFLAGS=-mod=mod GOPROXY=off
# The default `go` (1.23.5) switches to the cached go1.23.8 toolchain module that /repo's go.mod asks for;
# GOSUMDB=off would break the verification of that cached toolchain, GOTOOLCHAIN=local would refuse to switch.
unset GOSUMDB GOTOOLCHAIN GONOSUMDB GONOSUMCHECK GOFLAGS_EXTRA 2>/dev/null || true
REPO=${VERIF_REPO:-/repo}
mkdir -p "$HERE/.build"
BIN="$HERE/.build/grolsim.$$"
cleanup() { rm -f "$BIN"; }
trap cleanup EXIT
(
  cd "$HERE/sim" || exit 2
  if [ "$REPO" = /repo ]; then
    if ! cmp -s "$REPO/go.sum" go.sum; then cp "$REPO/go.sum" go.sum; fi
    go build -tags verif -o "$BIN" ./cmd/grolsim
  else
    # another checkout of grol (e.g. the snapshot of a background run): same module, alternate go.mod
    MF="$HERE/.build/gomod.$$"; mkdir -p "$MF"
    sed "s#=> /repo#=> $REPO#" go.mod > "$MF/go.mod"; cp "$REPO/go.sum" "$MF/go.sum"
    go build -modfile="$MF/go.mod" -tags verif -o "$BIN" ./cmd/grolsim; r=$?
    rm -rf "$MF"; exit $r
  fi
) >"$HERE/.build/build.$$.log" 2>&1
rc=$?
if [ $rc -ne 0 ] || [ ! -x "$BIN" ]; then
  echo "check.sh: BUILD FAILURE (harness or /repo does not compile with -tags verif)"
  tail -40 "$HERE/.build/build.$$.log"
  rm -f "$HERE/.build/build.$$.log"
  exit 2
fi
rm -f "$HERE/.build/build.$$.log"
# private scratch area for worlds that need real files; removed at the end
export VERIF_TMP=$(mktemp -d "${TMPDIR:-/tmp}/grolsim.XXXXXX")
trap 'cleanup; rm -rf "$VERIF_TMP"' EXIT
ulimit -v 16000000 2>/dev/null || true
case "${1:-}" in
  replay)
    "$BIN" replay "$2"; exit $? ;;
  *)
    tier=${2:-${VERIF_TIER:-quick}}
    "$BIN" run "$1" "$tier"; exit $? ;;
esac
