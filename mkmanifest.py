#!/usr/bin/env python3
"""Regenerates MANIFEST.json from the table below (kept in one place so it stays valid)."""
import json, subprocess

def commits():
    out = subprocess.check_output(["git", "-C", "/repo", "log", "--format=%h %s"]).decode().splitlines()
    return [l.split()[0] for l in out if l.split(" ", 1)[1].startswith("simhook")]

CHECKS = {
 "C06": dict(cat="exploration", ref="5.4",
   text="Seeded histories of bind/copy/nest (also from inside a function, built from outer bindings)/pass/mutate/observe events over arrays and maps of sizes 0..20 (both sides of the 8-element/4-pair thresholds) run as inputs on one real session; after every event every live name is observed as a typed canonical tree and compared with a copy-on-bind reference model; failing operations must change nothing and an assignment cancelled by a deadline fault at a random virtual tick must leave old or new value. Recorded in-place-mutation findings on large containers are matched by (kind, container, size class, mutation family), counted, and the session re-synchronised so the search continues; any mismatch on small containers or on another path is a VIOLATION.",
   note="The model encodes copy-on-bind value semantics as the documented behaviour; elements are integers or nested containers, map keys strings.",
   tech="deterministic simulation: seeded operation histories + injected cancellation, checked after every step against a small executable value-semantics model"),
 "C09": dict(cat="exploration", ref="5.5, 10",
   text="(a) for 22 programs (non-terminating loops of every for form, unbounded/mutual recursion, closures, heavy operators, sleep) the virtual deadline is swept over EVERY tick 1..min(T,cap): EvalOne must return, polls after firing stay within N*(D+2), the outcome is an error/recovered panic, virtual sleep honours the deadline, a probe input works afterwards. (b) MaxDepth 10..3000 with direct/mutual/closure/eval()/nested-source recursion must end in the max-depth guard or a value, and a recursion calibrated to MaxDepth-eps must succeed right after. (c) child processes under RLIMIT_AS=4GiB and GOMEMLIMIT=64MiB evaluate repetition/range/concat/doubling/macro-recursion programs with operands across 2^31/2^63 and in the free/16..free band; they must exit normally with a result within the budget or the memory/depth guard. (d) evaluators that used to run without a context (unjson, eval, macro bodies and arguments) and run()/exec() followed by an endless loop (unrestricted IO) under a virtual deadline. (e) the REAL timer of SetContext: MaxDuration 150 ms under a host context without, with a later and with an earlier deadline must come back within 8 s. Every sub-scenario runs in a watchdog child, so an evaluation that never polls the context again, a fatal stack overflow or an OOM kill is reported as a violation instead of hanging or killing the harness.",
   note="No real clock decides a verdict except the watchdogs (180 s / 45 s of real time for evaluations that take milliseconds when correct). Wall-clock latency of cancellation and peak RSS are not judged. Real time decides only the realtimer verdict, with a margin of x50. Three recorded findings: fat-frame recursion overflows the Go stack at the default depth limit; a large container assigned into itself is cyclic and printing it kills the process; comparing a value with 2^40 shared sub-arrays never polls the context.",
   tech="deterministic simulation: virtual-clock deadline swept over every cancellation instant, depth guard under random limits, memory guard via injected budget; all inside address-space-limited watchdog child processes"),
 "C10": dict(cat="exploration", ref="5.6",
   text="Seeded search over session histories: each base history of succeeding inputs is executed on the real interpreter with and without side-effect-free failing inputs (language error, Go runtime panic in a function or in a callee of a top-level loop, depth overflow, deadline at a PRNG-chosen virtual tick, injected allocation refusal, writer error, register-only loop errors, break/continue outside loops, a panic inside eval() reached through a function, a panic on the right of a pipe) inserted at random positions with multiplicity 1..11 (slot and depth leaks only show after several failures); every later input must produce identical output/value/outcome (and identical tick count with the cache off), and final globals must agree; a cancelled input's text is sometimes re-submitted uncancelled later in both histories (stale memoized partial results). Sampling, not proof.",
   note="Trusts the harness generator's construction of side-effect-free failing inputs and the virtual clock (1 tick per evaluated node) standing for real deadlines; error wording is not compared.",
   tech="deterministic simulation: seeded session histories + injected cancellation/allocation/writer faults, differential against the fault-free history of the same real code"),

 "C03": dict(cat="exploration", ref="5.1",
   text="Seeded in-process histories interleave format(text, normal|compact) with full evaluation of other inputs (which grows the process-global token interning table and the globals) and with repeated formatting; texts come from the workload grammar decorated with line/block comments and line breaks at statement boundaries, plus string literals holding raw non-UTF-8 bytes; each output is formatted again. Every format of a text must give the bytes of its first occurrence; a fresh worker process (different map hash seed, empty interning table) formatting the same texts in reverse order must produce identical bytes; format(format(t)) == format(t) in both modes; normal mode ends with exactly one newline.",
   note="The 'all parseable texts' quantifier is only sampled through the grammar (byte mutation would be input fuzzing); the recorded normal-mode sign-leading-statement finding is confined to a probe.",
   tech="deterministic simulation: seeded histories of format/evaluate events in one process plus a second OS process, checking history- and process-independence and the fixpoint of the real printer"),
 "C04": dict(cat="exploration", ref="5.2",
   text="Seeded search over REPL input sequences (definitions, leaf redefinitions, repeated and verbatim re-submitted calls, closures, outer reads/writes, prints, rand/time, functions reading a sometimes-deleted global under catch(), recursion reading a global in every frame, cancellations inside printing calls and inside a callee whose error the caller catch()es) executed on the real interpreter with the cache on and, through hook H1, off, under identical rand/time streams; per input the output bytes, value, outcome class and rand/time call counts must be identical, and final globals must agree. Fixed probe histories cover -0.0 (also nested in container arguments), variadic keys, save()/load() and sleep() inside functions (scratch directory), a memoized closure factory, functions reading or recreating an image of the image registry; recorded design-level staleness findings are confined to fixed probes (KNOWN-FINDING).",
   note="log() is not generated (a diagnostic channel written for actual executions only, pinned by grol's TestEvalMemoPrint); sleep() call counts are compared like rand/time call counts; in-place mutation of a large container returned by a cached call is attributed to C06 and kept out of this generator.",
   tech="deterministic simulation: seeded session histories with virtual rand/time streams and injected cancellations, differential between cache enabled/disabled (hook) of the same real code"),
 "C05": dict(cat="exploration", ref="5.3",
   text="Seeded search over multi-input session histories plus a deterministic sweep (parameter count 0..12 x loop depth 0..10 x exit kind): the same concrete history runs on the real interpreter with registers on and off and every input must give identical output/value/outcome class and identical final globals; deadline faults are addressed by the k-th execution of a planted marker so they hit the same program point in both modes. The grammar includes integer variables as map keys and field names, catch(for ...) in the same environment, loop values alive past their loop; fixed agreeing histories cover ':=' reuse of a parameter and operand orders of ==. Recorded (not repaired) divergences about loop-variable scoping and register-pinned parameters are re-observed by fixed probe histories and printed as KNOWN-FINDING.",
   note="Generated programs avoid type()/info; loop variables get unique names in the random batch so the recorded loop-variable-scoping findings stay confined to their probes; error wording is not compared.",
   tech="deterministic simulation: seeded session histories + marker-addressed cancellation, differential between NoReg=false/true of the same real code"),

 "C11": dict(cat="exploration", ref="5.7",
   text="Seeded sequential-history refinement: random operation histories (set/update/delete/merge/rest/range incl. raw negative and out-of-range bounds/literal with duplicates/permuted rebuild/assignment with a failing index expression; in 30% of the runs every language-level operation is issued from inside a function on the outer map) over per-run universes of 3..16 mixed-type keys (incl. int/float twins such as 1 and 1.0) are applied in lock-step to object.Map via the Go API, to a variable of a real grol session via source text, and to an association-list model; after every operation length, lookup of every key, iteration order, printed form, equality with a canonically built twin and immutability of + operands are compared. No faults apply (stated); sampled, not enumerated.",
   note="Cross-type key rank is learned from one canonical build per run (history independence rather than a hard-coded rank); int/float twins (1 and 1.0) are one key whose first-stored representative stays (typed comparison of the stored key); NaN and -0 are left to C12.",
   tech="deterministic simulation harness used as seeded history search: sequential refinement of the real map implementation (API and language level) against a small executable reference model"),
 "C13": dict(cat="exploration", ref="5.8",
   text="Seeded sessions define macros (0..4 parameters, each unquoted 0..3 times in a quoted template from an expression grammar incl. called lambdas, if/else, arrays, map access) and use them 1..5 times in the same and later inputs, at top level, in functions, loops and as arguments of other macros, with side-effecting and loosely-binding arguments and failing inputs in between; macros are redefined between uses (new template, permuted/renamed/other-count parameters) and the current definitions plus a use are also delivered as one text through eval() to a macro-free session. The harness' textual-substitution model is parsed by the real parser and compared structurally with State.ExpandMacros' tree; the printed expansion (both modes) must re-parse and evaluate like the hand-substituted program; evaluation must match on a macro-free session; the first use's tree must be unchanged after later uses; nothing may be printed during expansion.",
   note="Templates are single quoted integer expressions; the printer may regroup repeated associative operators (pinned by grol's tests), so the reprint oracle compares evaluation, not tree identity.",
   tech="deterministic simulation: seeded multi-input sessions with injected failing inputs, refinement of macro expansion against an executable textual-substitution model"),
 "C14": dict(cat="exploration", ref="5.9",
   text="Seeded worlds in a scratch directory: globals of 19 generator-known value kinds (int extremes, every float class, strings over all bytes, nested containers with keys of every type, named functions and lambdas from the workload grammar) are bound, saved (save(), SaveGlobals, AutoSave), the interpreter restarted (fresh state), loaded (load() whole-file or AutoLoad line by line), observed as typed canonical trees, functions re-called on fixed arguments, and saved again, for up to 3 cycles under MaxValueLen in {0,10,100,4000}; faults: state file truncated at a random byte, one byte flipped or a garbage line inserted between save and load, and bindings above 64 KiB, 1 MiB and 2 MiB (line buffers a scanner may default to); fixed probes: auto-save after a write made only by a function, alias of a named function, comment-only lambda. Oracles: equal value and type, same function behaviour, one line per binding = reported count, byte-identical re-save, over-long values absent, damaged file never panics AutoLoad and every intact line is restored.",
   note="A restart is a fresh eval.State in the same OS process. Recorded findings (integral floats, -0, MinInt64, closures, two printer regroupings) are matched by value kind / fixed probe; generated function bodies avoid the two recorded printer regroupings.",
   tech="deterministic simulation: seeded save/restart/load histories on a real scratch file system with injected torn/flipped state files, checked against generator-known values"),
 "C15": dict(cat="exploration", ref="5.10",
   text="The simulator acts as the transport of source text and decides fragmentation: seeded scripts (multi-line statements, comments, macros before use, statements starting with a string literal, multi-line raw strings holding punctuation, parameterless lambdas inside open brackets; run 0 is the fixed probe of the recorded finding 'a macro redefined between two uses inside one script') are (a) parsed in file and line mode and compared by a harness-side structural dump, (b) cut at every token boundary reported by the real lexer (plus positions inside strings/block comments): every prefix ending inside an open ( [ { string/comment or after a binary operator must yield a continuation request without errors, and line-by-line feeding through the REPL's prev+line accumulation must give the same statements, (c) delivered to a persistent session as one input and as every split into consecutive chunks (all 2^(n-1) for n<=7), optionally with failing inputs between chunks: same program output and final globals.",
   note="Chunks are aligned with generator-known top-level statements, each terminated by ';' because grol continues a statement across a newline before ++/--; repl.Interactive's terminal loop is re-implemented (6 lines) around the real parser.",
   tech="deterministic simulation: the simulator fragments the input stream (all cuts / all splits per script) and injects failing inputs; differential against whole-file delivery on the same real code"),
 "C17": dict(cat="exploration", ref="5.11",
   text="One worker process per IO configuration (restricted, empty-only, load/save disabled; unrestricted as positive control). Histories interleave save/load/image.save/exec/run attempts with hostile names (path separators, parent references, NUL, space, ~, lone non-ASCII bytes and valid multi-byte letters, embedded/double .gr, absolute paths, empty; acceptable names that exist only next to the script) and ordinary inputs, with the session's script path (State.CurrentFile: none, <stdin>, a script in the parent, a sibling or a sub directory) as a further per-run configuration, inside a scratch tree with decoy files carrying unique marker bindings; as environment fault the file an accepted name maps to (or ./grol.png) is pre-created as a directory so the request fails after acceptance. After every event the whole tree incl. parent and sibling directories is snapshotted (path, size, sha256, mode): writes only to ./<ident>.gr (./.gr in empty-only) and ./grol.png, decoys byte-identical, rejected names error and change nothing, no forbidden marker ever becomes visible, exec/run unknown, and the decision for a name is position independent. The control configuration shows the monitor does see escapes.",
   note="Sampling biased to hostile shapes, not exhaustive to length 6 (that would be bounded enumeration). Reads are detected through marker bindings, not syscall tracing.",
   tech="deterministic simulation: seeded request histories against a real scratch file system, file-system snapshot invariant evaluated after every event, one process per frozen configuration"),
 "C18": dict(cat="fault_enumeration", ref="5.12",
   text="For each generated pair (previous state A, new state B; 0..200 bindings) a reference worker process performs the real AutoSave twice and reports the crash points passed; then every crash point (before/after CreateTemp, after each written binding, after the last write, before/after rename) is enumerated by a fresh worker that SIGKILLs itself there, and ./.gr must be byte-identical to file(A) or file(B); write failures are injected with RLIMIT_FSIZE at a stride of byte offsets (EFBIG from the kernel): AutoSave must report an error and leave file(A); rename failures are injected by unlinking the temporary file under the running save at the points between its creation and the rename: error and file(A) again; after faults of every family a later healthy session saves a smaller state over the leftovers and ./.gr must be exactly that; unchanged state must not be saved at all.",
   note="Crash = process death (page cache survives); power loss / fsync ordering is out of scope as the property speaks of process death. The unwritable-directory fault is skipped when running as root.",
   tech="deterministic simulation with crash-point enumeration: worker processes killed at hook-defined points of the save path, kernel-injected write failures, on-disk state compared with the two legal versions"),
 "C19": dict(cat="exploration", ref="5.13",
   text="Seeded attack histories: constants of every value type incl. arrays/maps on both sides of the size thresholds are bound, then hit by random sequences of 34 kinds of mutation attempts (assignment forms, ++/--, index/dot assignment, element deletion, loop variable incl. loops starting at the constant's own value and the ninth nested loop, function-local constants (also attacked later, from the top level, by closures that escaped the function), parameter name, nested functions and loops, self-append, catch-wrapped, alias, mutating callee, cancelled slow assignment, numerically equal value of the other type also nested in containers, loop bodies reading the constant) with explicit del+rebind interleaved; two real sessions (registers on/off) run in lock-step and after every attempt every bound constant is re-observed in both; outcome classes and printed output must agree between the modes. A monitor mode re-observes every upper-case name of general generated sessions after every input. Recorded alias-based findings (rooted in C06) are matched narrowly and the search continues past them.",
   note="An attempt may fail or be a no-op; re-binding an equal value is allowed by the language. Attempts on a name that is not currently bound are skipped.",
   tech="deterministic simulation: seeded attack histories with injected cancellation, invariant (constant unchanged) checked after every step on both register configurations"),
 "C20": dict(cat="exploration", ref="5.14",
   text="Seeded sequential-history refinement of trie.Trie against a Go set: insertion histories biased to prefix/extension relations over 2-4 letter alphabets incl. bytes 0x00/0xFF, with Contains checked for every universe word and PrefixAll (words, byte order, common-prefix length) for every prefix after each insertion; plus real sessions with a registered trie where after every succeeding or failing input the index must equal the initial content plus name/name+' '/name+'(' of every newly bound global, and completion via PrefixAll(line[:pos]) only extends typed text towards defined words. No faults apply (stated).",
   note="The terminal printing part of repl/completion.go is not driven (needs a tty); the simulator calls the Trie.PrefixAll it delegates to.",
   tech="deterministic simulation harness used as seeded history search: sequential refinement of the real trie (direct and through a live session) against a set model"),
}

NA = {
 "C01": "Pure function of one program (needs an independent reference interpreter = differential testing); no schedule, clock, fault or history in the statement. Session-level consequences are covered by C04/C05/C10.",
 "C02": "Pure function source -> tree -> text -> tree; nothing to schedule or inject. History-independence of the printer is covered by C03, save/restart by C14.",
 "C07": "Universal statement over program texts with no environment in it; deciding it is input fuzzing, not simulation. Unexpected panics seen by the simulator are reported in evidence files only.",
 "C08": "Pure function bytes -> (errors | continuation | tree); exhaustive short strings / byte mutation is enumeration or fuzzing. Delivery-dependent behaviour is claimed under C15.",
 "C12": "Algebraic laws of a pure comparison function over pairs/triples of values; nothing to schedule or inject. Its effect on maps across histories is observed by C11.",
 "C16": "Pure function bytes -> tokens with positions; bounded enumeration of inputs, no stream or state the statement depends on (interning persistence is covered by C03).",
}

ALL = ["C%02d" % i for i in range(1, 21)]
PENDING = "check under construction in this work session (see DESIGN.md section 5); not yet registered"

def main():
    checks = []
    for pid in sorted(CHECKS):
        c = CHECKS[pid]
        checks.append({
            "property_id": pid,
            "quick_cmd": "./check.sh %s quick" % pid,
            "thorough_cmd": "./check.sh %s thorough" % pid,
            "evidence_file": "evidence/%s.json" % pid,
            "replay_cmd_template": "./check.sh replay {path}",
            "engine": "grolsim",
            "level_claimed": {"category": c["cat"], "text": c["text"], "design_ref": "DESIGN.md " + c["ref"]},
            "level_note": c["note"],
            "technique": c["tech"],
        })
    na = []
    for pid in ALL:
        if pid in CHECKS:
            continue
        na.append({"property_id": pid, "reason": NA.get(pid, PENDING)})
    m = {
        "version": 1,
        "setup_cmd": "./setup.sh",
        "hooks": {
            "guard": "verif (Go build tag)",
            "enable": "go build -tags verif (check.sh builds /verif/sim against /repo's working tree through a replace directive)",
            "baseline_off_cmd": "cd /repo && GOFLAGS=-mod=mod go test -json -vet=off -count=1 -timeout 25m ./...",
            "source_commits": commits(),
            "add_only": True,
        },
        "engines": [{"name": "grolsim", "path": "sim/", "serves_properties": sorted(CHECKS),
                     "kind_free_text": "deterministic simulator in Go: seeded PRNG, virtual clock/SimContext, memory budget, recording writers, scratch FS + worker processes, concrete-history replay files, ddmin"}],
        "checks": checks,
        "not_applicable": na,
        "notes": "Exit codes: 0 held (possibly KNOWN-FINDING lines), 1 VIOLATION with verified replay, 2 build/harness trouble. known_findings.txt lists recorded and repaired defects.",
    }
    json.dump(m, open("/verif/MANIFEST.json", "w"), indent=1)
    print("MANIFEST.json written:", len(checks), "checks,", len(na), "not_applicable")

main()
