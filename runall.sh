#!/bin/bash
# runall.sh [tier] [seed]: run every registered check, print exit code and summary line (developer convenience).
tier=${1:-quick}; seed=${2:-1}
cd "$(dirname "$0")"
rc=0
for p in $(python3 -c "import json;print(' '.join(c['property_id'] for c in json.load(open('MANIFEST.json'))['checks']))"); do
  out=$(VERIF_SEED=$seed ./check.sh $p $tier 2>&1); e=$?
  echo "$p exit=$e $(echo "$out" | tail -1)"
  if [ $e -ne 0 ]; then rc=1; echo "$out" | grep -A1 "violation detail\|HARNESS\|BUILD" | cut -c1-400 | head -20; fi
done
exit $rc
