#!/bin/bash
# Builds the harness once, offline, to warm the Go build cache and fail early if something is missing.
set -eu
HERE=$(cd "$(dirname "$0")" && pwd)
export GOFLAGS=-mod=mod GOPROXY=off
# The default `go` (1.23.5) switches to the cached go1.23.8 toolchain module that /repo's go.mod asks for;
# GOSUMDB=off would break the verification of that cached toolchain, GOTOOLCHAIN=local would refuse to switch.
unset GOSUMDB GOTOOLCHAIN GONOSUMDB GONOSUMCHECK GOFLAGS_EXTRA 2>/dev/null || true
mkdir -p "$HERE/.build" "$HERE/evidence" "$HERE/replays"
cd "$HERE/sim"
cp /repo/go.sum go.sum
go build -tags verif -o "$HERE/.build/grolsim" ./cmd/grolsim
"$HERE/.build/grolsim" list
