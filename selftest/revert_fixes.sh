#!/bin/bash
# Sensitivity self-test: reverting each repair (fix: commit) of /repo in a scratch worktree must make the quick
# check of the property that exposed the defect report a VIOLATION. Uses VERIF_REPO, /repo itself is untouched.
# Result table is written to selftest/sensitivity_reverts.json.
set -u
HERE=$(cd "$(dirname "$0")/.." && pwd)
WT=${TMPDIR:-/tmp}/grol-revert-wt.$$
git -C /repo worktree add -q "$WT" HEAD || exit 2
trap 'git -C /repo worktree remove --force "$WT" 2>/dev/null' EXIT
declare -A MAP=(
 [c22b9a1]=C10 [2ab473d]=C10 [ccaf8fe]=C05 [79e9d7f]=C05 [68408ec]=C05 [f1b07d7]=C05 [6435b8c]=C04 [44c8f57]=C20
 [f5b384a]=C11 [34fee10]=C19 [4d6de89]=C19 [1c9154c]=C14 [bdfe64d]=C14 [5ab5470]=C14 [fff1ad2]=C14 [9af6337]=C14
 [ac0090b]=C14 [4565c60]=C13 [12c6b94]=C13 [a2d31c2]=C03 [448272f]=C09 [98d0577]=C14 [b6a029d]=C14
)
echo "[" > "$HERE/selftest/sensitivity_reverts.json.tmp"; first=1
for c in c22b9a1 2ab473d ccaf8fe 79e9d7f 68408ec f1b07d7 6435b8c 44c8f57 f5b384a 34fee10 4d6de89 1c9154c bdfe64d 5ab5470 fff1ad2 9af6337 ac0090b 4565c60 12c6b94 a2d31c2 448272f 98d0577 b6a029d; do
  p=${MAP[$c]}
  git -C "$WT" reset -q --hard HEAD; git -C "$WT" clean -qfd
  if ! git -C /repo show "$c" -- '*.go' | git -C "$WT" apply -R 2>/dev/null; then
    res="revert-does-not-apply"; e=-1
  fi
  if [ "${res:-}" != "revert-does-not-apply" ]; then
    out=$(cd "$HERE" && VERIF_REPO="$WT" VERIF_SEED=${VERIF_SEED:-1} ./check.sh $p ${TIER:-quick} 2>&1); e=$?
    case $e in 1) res=caught;; 0) res=MISSED;; *) res="harness-exit-$e";; esac
  fi
  subj=$(git -C /repo log -1 --format=%s $c | cut -c1-90 | sed 's/"/\\"/g')
  echo "$c $p $res  ($subj)"
  [ $first -eq 1 ] || echo "," >> "$HERE/selftest/sensitivity_reverts.json.tmp"; first=0
  echo " {\"reverted_fix\": \"$c\", \"subject\": \"$subj\", \"check\": \"$p\", \"tier\": \"${TIER:-quick}\", \"result\": \"$res\"}" >> "$HERE/selftest/sensitivity_reverts.json.tmp"
  res=""
done
echo "]" >> "$HERE/selftest/sensitivity_reverts.json.tmp"; mv "$HERE/selftest/sensitivity_reverts.json.tmp" "$HERE/selftest/sensitivity_reverts.json"
