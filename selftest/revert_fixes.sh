#!/bin/bash
# Sensitivity self-test: reverting each repair (fix: commit) of /repo in a scratch worktree must make the quick
# check of the property that exposed the defect report a VIOLATION. Uses VERIF_REPO, /repo itself is untouched.
# The list of repairs and the property each belongs to come from the "fixed:" lines of known_findings.txt.
# Result table is written to selftest/sensitivity_reverts.json.
set -u
HERE=$(cd "$(dirname "$0")/.." && pwd)
WT=${TMPDIR:-/tmp}/grol-revert-wt.$$
git -C /repo worktree add -q --detach "$WT" HEAD || exit 2
trap 'git -C /repo worktree remove --force "$WT" 2>/dev/null' EXIT
ROWS=$(mktemp)
grep '^fixed:' "$HERE/known_findings.txt" | while read -r _ prop c _; do
  p=${prop#property=}
  [ -n "${ONLY:-}" ] && [[ " $ONLY " != *" $c "* ]] && continue
  git -C "$WT" reset -q --hard HEAD; git -C "$WT" clean -qfd
  if ! git -C /repo show "$c" -- '*.go' ':!*_test.go' | git -C "$WT" apply -R 2>/dev/null; then
    res="revert-does-not-apply"
  elif ! (cd "$WT" && GOFLAGS=-mod=mod GOPROXY=off go build ./... >/dev/null 2>&1); then
    res="revert-does-not-build"
  else
    out=$(cd "$HERE" && VERIF_REPO="$WT" VERIF_SEED=${VERIF_SEED:-1} ./check.sh $p ${TIER:-quick} 2>&1); e=$?
    case $e in 1) res=caught;; 0) res=MISSED;; *) res="harness-exit-$e";; esac
  fi
  subj=$(git -C /repo log -1 --format=%s $c)
  echo "$c $p $res  ($(echo "$subj" | cut -c1-90))"
  printf '%s\t%s\t%s\t%s\n' "$c" "$p" "$res" "$subj" >> "$ROWS"
done
python3 - "$ROWS" "$HERE/selftest/sensitivity_reverts.json" "${TIER:-quick}" "${ONLY:-}" <<'EOF'
import json, sys, os
rows, out, tier, only = sys.argv[1:5]
new = [dict(zip(("reverted_fix", "check", "result", "subject"), l.rstrip("\n").split("\t"))) for l in open(rows)]
for r in new:
    r["tier"] = tier
old = []
if only and os.path.exists(out):
    try:
        old = [e for e in json.load(open(out)) if e["reverted_fix"] not in {r["reverted_fix"] for r in new}]
    except Exception:
        old = []
json.dump(old + new, open(out, "w"), indent=1)
EOF
rm -f "$ROWS"
