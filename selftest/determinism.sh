#!/bin/bash
# Determinism self-test (DESIGN section 4): the full run record (history, outcome, stats, shape and state
# hashes) of run i under VERIF_SEED s must be byte-identical across fresh processes and GOMAXPROCS values.
# Every process has its own Go map hash seed, so this also shows nothing observable depends on map order.
# usage: selftest/determinism.sh [properties...]   (default: all registered); exit 0 = deterministic.
set -u
HERE=$(cd "$(dirname "$0")/.." && pwd)
export VERIF_HOME="$HERE" GOFLAGS=-mod=mod GOPROXY=off
mkdir -p "$HERE/.build"
BIN="$HERE/.build/grolsim.det.$$"
(cd "$HERE/sim" && go build -tags verif -o "$BIN" ./cmd/grolsim) || { echo "build failed"; exit 2; }
export VERIF_TMP=$(mktemp -d "${TMPDIR:-/tmp}/grolsim-det.XXXXXX")
trap 'rm -rf "$VERIF_TMP" "$BIN"' EXIT
props=${*:-$("$BIN" list)}
bad=0; total=0
for p in $props; do
  nproc=0; pbad=0
  for s in 1 2 3; do
    for i in 0 1 2 3 4 7 11 19 23 42 64 101; do
      ref=""
      for gmp in 1 4 16; do
        h=$(GOMAXPROCS=$gmp "$BIN" one "$p" quick "$s" "$i" 2>/dev/null | sed -E 's/c1[0-9]-[0-9]+|\.grol[0-9]+\.tmp/<tmp>/g' | sha256sum | cut -c1-16)
        nproc=$((nproc+1))
        if [ -z "$ref" ]; then ref=$h; elif [ "$h" != "$ref" ]; then pbad=$((pbad+1)); echo "NONDETERMINISTIC property=$p seed=$s run=$i GOMAXPROCS=$gmp"; fi
      done
    done
  done
  total=$((total+nproc)); bad=$((bad+pbad))
  echo "$p: $nproc processes, $pbad divergences"
done
echo "determinism: $total processes, $bad divergences"
[ $bad -eq 0 ]
